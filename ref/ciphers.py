"""Independent reference model of the primitive ciphers (test oracle).

Pure Python, standard library only.  Written from the specifications:

  AES        FIPS 197 (S-box computed from GF(2^8) inversion + affine map)
  DES/3DES   FIPS 46-3 / SP 800-67 (FIPS permutation tables and S-boxes)
  Blowfish   B. Schneier, "Description of a New Variable-Length Key, 64-Bit
             Block Cipher (Blowfish)", FSE 1993.  P-array and S-boxes are
             computed at import from the hexadecimal expansion of pi.
  EksBlowfish Provos & Mazieres, "A Future-Adaptable Password Scheme" (1999)
  CAST-128   RFC 2144
  RC2        RFC 2268
  RC4        the well-known "alleged RC4"
  Salsa20    D. J. Bernstein, "Salsa20 specification" (20 rounds)
  ChaCha20   D. J. Bernstein "ChaCha, a variant of Salsa20"; RFC 8439;
             draft-irtf-cfrg-xchacha (HChaCha20 / XChaCha20)

This module never imports the library under test.

Block-cipher duck type (also what ref.modes expects):

    obj.block_size            -> int (bytes)
    obj.encrypt_block(b)      -> bytes, len(b) == block_size
    obj.decrypt_block(b)      -> bytes, len(b) == block_size

Constant tables that cannot be generated (DES S-boxes / permutations,
CAST-128 S-boxes, RC2 PITABLE) are transcribed and are validated by the
published known-answer vectors embedded in self_test().
"""

import struct

__all__ = [
    "AES", "DES", "DES3", "Blowfish", "EksBlowfish", "CAST128", "RC2", "RC4",
    "salsa20_block", "salsa20_xor",
    "chacha20_block", "chacha20_xor", "chacha20_params", "hchacha20",
    "self_test",
]

_M32 = 0xFFFFFFFF


def _check_block(b, n):
    if len(b) != n:
        raise ValueError("block must be exactly %d bytes (got %d)" % (n, len(b)))


# ===========================================================================
# AES  (FIPS 197)
# ===========================================================================

def _aes_build_tables():
    # GF(2^8) with modulus x^8+x^4+x^3+x+1 (0x11B); 3 is a generator.
    exp = [0] * 510
    log = [0] * 256
    x = 1
    for i in range(255):
        exp[i] = x
        log[x] = i
        # multiply x by 3 = x*2 ^ x
        x2 = x << 1
        if x2 & 0x100:
            x2 ^= 0x11B
        x = x2 ^ x
    for i in range(255, 510):
        exp[i] = exp[i - 255]

    def mul(a, b):
        if a == 0 or b == 0:
            return 0
        return exp[log[a] + log[b]]

    sbox = [0] * 256
    inv_sbox = [0] * 256
    for a in range(256):
        inv = 0 if a == 0 else exp[255 - log[a]]
        # affine transformation (FIPS 197 sec 5.1.1)
        b = inv
        r = b
        for sh in (1, 2, 3, 4):
            r ^= ((b << sh) | (b >> (8 - sh))) & 0xFF
        r ^= 0x63
        sbox[a] = r
        inv_sbox[r] = a

    te = [[0] * 256 for _ in range(4)]
    td = [[0] * 256 for _ in range(4)]
    for a in range(256):
        s = sbox[a]
        # MixColumns column for input byte in row 0: (2s, s, s, 3s)
        w = (mul(s, 2) << 24) | (s << 16) | (s << 8) | mul(s, 3)
        for k in range(4):
            te[k][a] = w
            w = ((w >> 8) | (w << 24)) & _M32
        s = inv_sbox[a]
        # InvMixColumns: (14s, 9s, 13s, 11s)
        w = (mul(s, 14) << 24) | (mul(s, 9) << 16) | (mul(s, 13) << 8) | mul(s, 11)
        for k in range(4):
            td[k][a] = w
            w = ((w >> 8) | (w << 24)) & _M32
    return sbox, inv_sbox, te, td, mul


_AES_SBOX, _AES_INV_SBOX, _AES_TE, _AES_TD, _gf256_mul = _aes_build_tables()
_TE0, _TE1, _TE2, _TE3 = _AES_TE
_TD0, _TD1, _TD2, _TD3 = _AES_TD


class AES(object):
    """AES-128/192/256 (FIPS 197)."""

    block_size = 16
    key_sizes = (16, 24, 32)

    def __init__(self, key):
        key = bytes(key)
        if len(key) not in (16, 24, 32):
            raise ValueError("AES key must be 16, 24 or 32 bytes long")
        self.key = key
        nk = len(key) // 4
        nr = nk + 6
        self.rounds = nr
        sbox = _AES_SBOX
        w = list(struct.unpack(">%dI" % nk, key))
        rcon = 1
        for i in range(nk, 4 * (nr + 1)):
            t = w[i - 1]
            if i % nk == 0:
                t = ((t << 8) | (t >> 24)) & _M32          # RotWord
                t = (sbox[t >> 24] << 24) | (sbox[(t >> 16) & 255] << 16) | \
                    (sbox[(t >> 8) & 255] << 8) | sbox[t & 255]  # SubWord
                t ^= rcon << 24
                rcon <<= 1
                if rcon & 0x100:
                    rcon ^= 0x11B
            elif nk > 6 and i % nk == 4:
                t = (sbox[t >> 24] << 24) | (sbox[(t >> 16) & 255] << 16) | \
                    (sbox[(t >> 8) & 255] << 8) | sbox[t & 255]
            w.append(w[i - nk] ^ t)
        self._ek = w
        # Equivalent inverse cipher (FIPS 197 sec 5.3.5): round keys in
        # reverse order, InvMixColumns applied to the inner ones.
        dk = []
        for r in range(nr, -1, -1):
            for c in range(4):
                v = w[4 * r + c]
                if 0 < r < nr:
                    v = _TD0[sbox[v >> 24]] ^ _TD1[sbox[(v >> 16) & 255]] ^ \
                        _TD2[sbox[(v >> 8) & 255]] ^ _TD3[sbox[v & 255]]
                dk.append(v)
        self._dk = dk

    def encrypt_block(self, block):
        if len(block) != 16:
            raise ValueError("block must be exactly 16 bytes")
        rk = self._ek
        te0 = _TE0; te1 = _TE1; te2 = _TE2; te3 = _TE3
        s0, s1, s2, s3 = struct.unpack(">4I", block)
        s0 ^= rk[0]; s1 ^= rk[1]; s2 ^= rk[2]; s3 ^= rk[3]
        i = 4
        for _ in range(self.rounds - 1):
            t0 = te0[s0 >> 24] ^ te1[(s1 >> 16) & 255] ^ te2[(s2 >> 8) & 255] ^ te3[s3 & 255] ^ rk[i]
            t1 = te0[s1 >> 24] ^ te1[(s2 >> 16) & 255] ^ te2[(s3 >> 8) & 255] ^ te3[s0 & 255] ^ rk[i + 1]
            t2 = te0[s2 >> 24] ^ te1[(s3 >> 16) & 255] ^ te2[(s0 >> 8) & 255] ^ te3[s1 & 255] ^ rk[i + 2]
            s3 = te0[s3 >> 24] ^ te1[(s0 >> 16) & 255] ^ te2[(s1 >> 8) & 255] ^ te3[s2 & 255] ^ rk[i + 3]
            s0 = t0; s1 = t1; s2 = t2
            i += 4
        sb = _AES_SBOX
        t0 = ((sb[s0 >> 24] << 24) | (sb[(s1 >> 16) & 255] << 16) | (sb[(s2 >> 8) & 255] << 8) | sb[s3 & 255]) ^ rk[i]
        t1 = ((sb[s1 >> 24] << 24) | (sb[(s2 >> 16) & 255] << 16) | (sb[(s3 >> 8) & 255] << 8) | sb[s0 & 255]) ^ rk[i + 1]
        t2 = ((sb[s2 >> 24] << 24) | (sb[(s3 >> 16) & 255] << 16) | (sb[(s0 >> 8) & 255] << 8) | sb[s1 & 255]) ^ rk[i + 2]
        t3 = ((sb[s3 >> 24] << 24) | (sb[(s0 >> 16) & 255] << 16) | (sb[(s1 >> 8) & 255] << 8) | sb[s2 & 255]) ^ rk[i + 3]
        return struct.pack(">4I", t0, t1, t2, t3)

    def decrypt_block(self, block):
        if len(block) != 16:
            raise ValueError("block must be exactly 16 bytes")
        rk = self._dk
        td0 = _TD0; td1 = _TD1; td2 = _TD2; td3 = _TD3
        s0, s1, s2, s3 = struct.unpack(">4I", block)
        s0 ^= rk[0]; s1 ^= rk[1]; s2 ^= rk[2]; s3 ^= rk[3]
        i = 4
        for _ in range(self.rounds - 1):
            t0 = td0[s0 >> 24] ^ td1[(s3 >> 16) & 255] ^ td2[(s2 >> 8) & 255] ^ td3[s1 & 255] ^ rk[i]
            t1 = td0[s1 >> 24] ^ td1[(s0 >> 16) & 255] ^ td2[(s3 >> 8) & 255] ^ td3[s2 & 255] ^ rk[i + 1]
            t2 = td0[s2 >> 24] ^ td1[(s1 >> 16) & 255] ^ td2[(s0 >> 8) & 255] ^ td3[s3 & 255] ^ rk[i + 2]
            s3 = td0[s3 >> 24] ^ td1[(s2 >> 16) & 255] ^ td2[(s1 >> 8) & 255] ^ td3[s0 & 255] ^ rk[i + 3]
            s0 = t0; s1 = t1; s2 = t2
            i += 4
        sb = _AES_INV_SBOX
        t0 = ((sb[s0 >> 24] << 24) | (sb[(s3 >> 16) & 255] << 16) | (sb[(s2 >> 8) & 255] << 8) | sb[s1 & 255]) ^ rk[i]
        t1 = ((sb[s1 >> 24] << 24) | (sb[(s0 >> 16) & 255] << 16) | (sb[(s3 >> 8) & 255] << 8) | sb[s2 & 255]) ^ rk[i + 1]
        t2 = ((sb[s2 >> 24] << 24) | (sb[(s1 >> 16) & 255] << 16) | (sb[(s0 >> 8) & 255] << 8) | sb[s3 & 255]) ^ rk[i + 2]
        t3 = ((sb[s3 >> 24] << 24) | (sb[(s2 >> 16) & 255] << 16) | (sb[(s1 >> 8) & 255] << 8) | sb[s0 & 255]) ^ rk[i + 3]
        return struct.pack(">4I", t0, t1, t2, t3)

    # -- slow, literal FIPS 197 transcription, used only to cross-check the
    #    table-driven code in self_test() --------------------------------
    def _encrypt_block_slow(self, block):
        nr = self.rounds
        w = self._ek
        st = [[block[r + 4 * c] for c in range(4)] for r in range(4)]  # st[row][col]

        def add_round_key(rnd):
            for c in range(4):
                word = w[4 * rnd + c]
                for r in range(4):
                    st[r][c] ^= (word >> (24 - 8 * r)) & 255

        add_round_key(0)
        for rnd in range(1, nr + 1):
            for r in range(4):
                for c in range(4):
                    st[r][c] = _AES_SBOX[st[r][c]]
            for r in range(1, 4):
                st[r] = st[r][r:] + st[r][:r]
            if rnd != nr:
                for c in range(4):
                    a = [st[r][c] for r in range(4)]
                    m = _gf256_mul
                    st[0][c] = m(a[0], 2) ^ m(a[1], 3) ^ a[2] ^ a[3]
                    st[1][c] = a[0] ^ m(a[1], 2) ^ m(a[2], 3) ^ a[3]
                    st[2][c] = a[0] ^ a[1] ^ m(a[2], 2) ^ m(a[3], 3)
                    st[3][c] = m(a[0], 3) ^ a[1] ^ a[2] ^ m(a[3], 2)
            add_round_key(rnd)
        return bytes(st[r][c] for c in range(4) for r in range(4))


# ===========================================================================
# DES / Triple DES  (FIPS 46-3)
# ===========================================================================

_DES_IP = (
    58, 50, 42, 34, 26, 18, 10, 2, 60, 52, 44, 36, 28, 20, 12, 4,
    62, 54, 46, 38, 30, 22, 14, 6, 64, 56, 48, 40, 32, 24, 16, 8,
    57, 49, 41, 33, 25, 17, 9, 1, 59, 51, 43, 35, 27, 19, 11, 3,
    61, 53, 45, 37, 29, 21, 13, 5, 63, 55, 47, 39, 31, 23, 15, 7,
)
# IP^-1 is derived as the inverse permutation of IP (checked in self_test).
_DES_FP = tuple(_DES_IP.index(i) + 1 for i in range(1, 65))

_DES_E = (
    32, 1, 2, 3, 4, 5, 4, 5, 6, 7, 8, 9,
    8, 9, 10, 11, 12, 13, 12, 13, 14, 15, 16, 17,
    16, 17, 18, 19, 20, 21, 20, 21, 22, 23, 24, 25,
    24, 25, 26, 27, 28, 29, 28, 29, 30, 31, 32, 1,
)
_DES_P = (
    16, 7, 20, 21, 29, 12, 28, 17, 1, 15, 23, 26, 5, 18, 31, 10,
    2, 8, 24, 14, 32, 27, 3, 9, 19, 13, 30, 6, 22, 11, 4, 25,
)
_DES_PC1 = (
    57, 49, 41, 33, 25, 17, 9, 1, 58, 50, 42, 34, 26, 18,
    10, 2, 59, 51, 43, 35, 27, 19, 11, 3, 60, 52, 44, 36,
    63, 55, 47, 39, 31, 23, 15, 7, 62, 54, 46, 38, 30, 22,
    14, 6, 61, 53, 45, 37, 29, 21, 13, 5, 28, 20, 12, 4,
)
_DES_PC2 = (
    14, 17, 11, 24, 1, 5, 3, 28, 15, 6, 21, 10,
    23, 19, 12, 4, 26, 8, 16, 7, 27, 20, 13, 2,
    41, 52, 31, 37, 47, 55, 30, 40, 51, 45, 33, 48,
    44, 49, 39, 56, 34, 53, 46, 42, 50, 36, 29, 32,
)
_DES_SHIFTS = (1, 1, 2, 2, 2, 2, 2, 2, 1, 2, 2, 2, 2, 2, 2, 1)
_DES_S = (
    (
        (14,  4, 13,  1,  2, 15, 11,  8,  3, 10,  6, 12,  5,  9,  0,  7),
        ( 0, 15,  7,  4, 14,  2, 13,  1, 10,  6, 12, 11,  9,  5,  3,  8),
        ( 4,  1, 14,  8, 13,  6,  2, 11, 15, 12,  9,  7,  3, 10,  5,  0),
        (15, 12,  8,  2,  4,  9,  1,  7,  5, 11,  3, 14, 10,  0,  6, 13),
    ),
    (
        (15,  1,  8, 14,  6, 11,  3,  4,  9,  7,  2, 13, 12,  0,  5, 10),
        ( 3, 13,  4,  7, 15,  2,  8, 14, 12,  0,  1, 10,  6,  9, 11,  5),
        ( 0, 14,  7, 11, 10,  4, 13,  1,  5,  8, 12,  6,  9,  3,  2, 15),
        (13,  8, 10,  1,  3, 15,  4,  2, 11,  6,  7, 12,  0,  5, 14,  9),
    ),
    (
        (10,  0,  9, 14,  6,  3, 15,  5,  1, 13, 12,  7, 11,  4,  2,  8),
        (13,  7,  0,  9,  3,  4,  6, 10,  2,  8,  5, 14, 12, 11, 15,  1),
        (13,  6,  4,  9,  8, 15,  3,  0, 11,  1,  2, 12,  5, 10, 14,  7),
        ( 1, 10, 13,  0,  6,  9,  8,  7,  4, 15, 14,  3, 11,  5,  2, 12),
    ),
    (
        ( 7, 13, 14,  3,  0,  6,  9, 10,  1,  2,  8,  5, 11, 12,  4, 15),
        (13,  8, 11,  5,  6, 15,  0,  3,  4,  7,  2, 12,  1, 10, 14,  9),
        (10,  6,  9,  0, 12, 11,  7, 13, 15,  1,  3, 14,  5,  2,  8,  4),
        ( 3, 15,  0,  6, 10,  1, 13,  8,  9,  4,  5, 11, 12,  7,  2, 14),
    ),
    (
        ( 2, 12,  4,  1,  7, 10, 11,  6,  8,  5,  3, 15, 13,  0, 14,  9),
        (14, 11,  2, 12,  4,  7, 13,  1,  5,  0, 15, 10,  3,  9,  8,  6),
        ( 4,  2,  1, 11, 10, 13,  7,  8, 15,  9, 12,  5,  6,  3,  0, 14),
        (11,  8, 12,  7,  1, 14,  2, 13,  6, 15,  0,  9, 10,  4,  5,  3),
    ),
    (
        (12,  1, 10, 15,  9,  2,  6,  8,  0, 13,  3,  4, 14,  7,  5, 11),
        (10, 15,  4,  2,  7, 12,  9,  5,  6,  1, 13, 14,  0, 11,  3,  8),
        ( 9, 14, 15,  5,  2,  8, 12,  3,  7,  0,  4, 10,  1, 13, 11,  6),
        ( 4,  3,  2, 12,  9,  5, 15, 10, 11, 14,  1,  7,  6,  0,  8, 13),
    ),
    (
        ( 4, 11,  2, 14, 15,  0,  8, 13,  3, 12,  9,  7,  5, 10,  6,  1),
        (13,  0, 11,  7,  4,  9,  1, 10, 14,  3,  5, 12,  2, 15,  8,  6),
        ( 1,  4, 11, 13, 12,  3,  7, 14, 10, 15,  6,  8,  0,  5,  9,  2),
        ( 6, 11, 13,  8,  1,  4, 10,  7,  9,  5,  0, 15, 14,  2,  3, 12),
    ),
    (
        (13,  2,  8,  4,  6, 15, 11,  1, 10,  9,  3, 14,  5,  0, 12,  7),
        ( 1, 15, 13,  8, 10,  3,  7,  4, 12,  5,  6, 11,  0, 14,  9,  2),
        ( 7, 11,  4,  1,  9, 12, 14,  2,  0,  6, 10, 13, 15,  3,  5,  8),
        ( 2,  1, 14,  7,  4, 10,  8, 13, 15, 12,  9,  0,  3,  5,  6, 11),
    ),
)


def _permute(value, in_bits, table):
    """Generic FIPS-style bit permutation; bit 1 is the most significant."""
    out = 0
    for pos in table:
        out = (out << 1) | ((value >> (in_bits - pos)) & 1)
    return out


def _des_build_fast_tables():
    # SP[i][x6] = P( S_i(x6) placed in nibble i of the 32-bit word )
    sp = []
    for i in range(8):
        row = []
        for x in range(64):
            r = ((x >> 5) << 1) | (x & 1)
            c = (x >> 1) & 15
            row.append(_permute(_DES_S[i][r][c] << (28 - 4 * i), 32, _DES_P))
        sp.append(row)
    # byte-indexed tables for the 64-bit permutations IP and IP^-1
    ip = []
    fp = []
    for bytepos in range(8):
        sh = 56 - 8 * bytepos
        ip.append([_permute(v << sh, 64, _DES_IP) for v in range(256)])
        fp.append([_permute(v << sh, 64, _DES_FP) for v in range(256)])
    return sp, ip, fp


_DES_SP, _DES_IPT, _DES_FPT = _des_build_fast_tables()


def _des_subkeys(key8):
    """Return the 16 48-bit round keys K1..K16 (FIPS 46-3 key schedule)."""
    k = int.from_bytes(key8, "big")
    cd = _permute(k, 64, _DES_PC1)
    c = cd >> 28
    d = cd & 0xFFFFFFF
    ks = []
    for s in _DES_SHIFTS:
        c = ((c << s) | (c >> (28 - s))) & 0xFFFFFFF
        d = ((d << s) | (d >> (28 - s))) & 0xFFFFFFF
        ks.append(_permute((c << 28) | d, 56, _DES_PC2))
    return ks


def _des_split_subkeys(ks):
    # each 48-bit key -> eight 6-bit chunks, flattened
    out = []
    for k in ks:
        for i in range(8):
            out.append((k >> (42 - 6 * i)) & 63)
    return out


def _des_crypt_int(x, sk):
    """Core DES on a 64-bit integer with the 128 6-bit chunks `sk`."""
    ipt = _DES_IPT
    y = (ipt[0][x >> 56] | ipt[1][(x >> 48) & 255] | ipt[2][(x >> 40) & 255] |
         ipt[3][(x >> 32) & 255] | ipt[4][(x >> 24) & 255] | ipt[5][(x >> 16) & 255] |
         ipt[6][(x >> 8) & 255] | ipt[7][x & 255])
    l = y >> 32
    r = y & _M32
    sp0, sp1, sp2, sp3, sp4, sp5, sp6, sp7 = _DES_SP
    j = 0
    for _ in range(16):
        # 34-bit window: bit32, bit1..bit32, bit1  (expansion E by shifting)
        e = ((r & 1) << 33) | (r << 1) | (r >> 31)
        f = (sp0[((e >> 28) & 63) ^ sk[j]] | sp1[((e >> 24) & 63) ^ sk[j + 1]] |
             sp2[((e >> 20) & 63) ^ sk[j + 2]] | sp3[((e >> 16) & 63) ^ sk[j + 3]] |
             sp4[((e >> 12) & 63) ^ sk[j + 4]] | sp5[((e >> 8) & 63) ^ sk[j + 5]] |
             sp6[((e >> 4) & 63) ^ sk[j + 6]] | sp7[(e & 63) ^ sk[j + 7]])
        l, r = r, l ^ f
        j += 8
    y = (r << 32) | l          # pre-output block R16 L16
    fpt = _DES_FPT
    return (fpt[0][y >> 56] | fpt[1][(y >> 48) & 255] | fpt[2][(y >> 40) & 255] |
            fpt[3][(y >> 32) & 255] | fpt[4][(y >> 24) & 255] | fpt[5][(y >> 16) & 255] |
            fpt[6][(y >> 8) & 255] | fpt[7][y & 255])


def _des_crypt_int_slow(x, ks):
    """Literal FIPS 46-3 transcription (bit permutations); ks = 16 48-bit keys."""
    y = _permute(x, 64, _DES_IP)
    l = y >> 32
    r = y & _M32
    for k in ks:
        e = _permute(r, 32, _DES_E) ^ k
        s_out = 0
        for i in range(8):
            six = (e >> (42 - 6 * i)) & 63
            row = ((six >> 5) << 1) | (six & 1)
            col = (six >> 1) & 15
            s_out = (s_out << 4) | _DES_S[i][row][col]
        l, r = r, l ^ _permute(s_out, 32, _DES_P)
    return _permute((r << 32) | l, 64, _DES_FP)


class DES(object):
    """Single DES (FIPS 46-3).  The 8 parity bits of the key are ignored."""

    block_size = 8
    key_sizes = (8,)

    def __init__(self, key):
        key = bytes(key)
        if len(key) != 8:
            raise ValueError("DES key must be 8 bytes long")
        self.key = key
        self._ks = _des_subkeys(key)
        self._ek = _des_split_subkeys(self._ks)
        self._dk = _des_split_subkeys(self._ks[::-1])

    def encrypt_block(self, block):
        _check_block(block, 8)
        return _des_crypt_int(int.from_bytes(block, "big"), self._ek).to_bytes(8, "big")

    def decrypt_block(self, block):
        _check_block(block, 8)
        return _des_crypt_int(int.from_bytes(block, "big"), self._dk).to_bytes(8, "big")

    def _encrypt_block_slow(self, block):
        return _des_crypt_int_slow(int.from_bytes(block, "big"), self._ks).to_bytes(8, "big")

    def _decrypt_block_slow(self, block):
        return _des_crypt_int_slow(int.from_bytes(block, "big"), self._ks[::-1]).to_bytes(8, "big")


class DES3(object):
    """Triple DES, EDE (SP 800-67).  16-byte key = K1||K2 (K3 = K1),
    24-byte key = K1||K2||K3.  C = E_K3(D_K2(E_K1(P))).

    No weak/degenerate-key policy is applied here (the library under test
    refuses keys where K1 == K2 or K2 == K3; that is API policy, not part of
    the algorithm) -- see `DES3.degenerates_to_single_des(key)`."""

    block_size = 8
    key_sizes = (16, 24)

    def __init__(self, key):
        key = bytes(key)
        if len(key) not in (16, 24):
            raise ValueError("Triple DES key must be 16 or 24 bytes long")
        self.key = key
        k1, k2 = key[:8], key[8:16]
        k3 = key[16:24] if len(key) == 24 else k1
        ks1, ks2, ks3 = _des_subkeys(k1), _des_subkeys(k2), _des_subkeys(k3)
        sp = _des_split_subkeys
        self._e = (sp(ks1), sp(ks2[::-1]), sp(ks3))
        self._d = (sp(ks3[::-1]), sp(ks2), sp(ks1[::-1]))

    @staticmethod
    def adjust_parity(key):
        """Return the key with odd parity set in every byte (bit 0 = parity)."""
        out = bytearray()
        for b in bytes(key):
            hi = b & 0xFE
            out.append(hi | (1 ^ (bin(hi).count("1") & 1)))
        return bytes(out)

    @staticmethod
    def degenerates_to_single_des(key):
        """True when, ignoring parity bits, K1 == K2 or K2 == K3."""
        key = bytes(b & 0xFE for b in bytes(key))
        k1, k2 = key[:8], key[8:16]
        k3 = key[16:24] if len(key) == 24 else k1
        return k1 == k2 or k2 == k3

    def encrypt_block(self, block):
        _check_block(block, 8)
        x = int.from_bytes(block, "big")
        for sk in self._e:
            x = _des_crypt_int(x, sk)
        return x.to_bytes(8, "big")

    def decrypt_block(self, block):
        _check_block(block, 8)
        x = int.from_bytes(block, "big")
        for sk in self._d:
            x = _des_crypt_int(x, sk)
        return x.to_bytes(8, "big")


# ===========================================================================
# Blowfish  (Schneier 1993)  and EksBlowfish (bcrypt paper)
# ===========================================================================

def _pi_fraction_hex(ndigits):
    """floor(frac(pi) * 16**ndigits) using Machin's formula
    pi = 16 arctan(1/5) - 4 arctan(1/239) in fixed-point big integers."""
    guard = 64
    bits = 4 * ndigits + guard
    one = 1 << bits

    def arctan_inv(x):
        x2 = x * x
        term = one // x
        total = term
        k = 1
        sign = -1
        while term:
            term //= x2
            k += 2
            total += sign * (term // k)
            sign = -sign
        return total

    pi = 16 * arctan_inv(5) - 4 * arctan_inv(239)
    frac = pi - 3 * one
    assert 0 < frac < one
    return frac >> guard


def _blowfish_initial_state():
    nwords = 18 + 4 * 256
    v = _pi_fraction_hex(8 * nwords)
    raw = v.to_bytes(4 * nwords, "big")
    words = struct.unpack(">%dI" % nwords, raw)
    p = words[:18]
    s = tuple(words[18 + 256 * i: 18 + 256 * (i + 1)] for i in range(4))
    return p, s


_BF_P_INIT, _BF_S_INIT = _blowfish_initial_state()


def _bf_encrypt_words(l, r, p, s0, s1, s2, s3):
    for i in range(0, 16, 2):
        l ^= p[i]
        r ^= ((((s0[l >> 24] + s1[(l >> 16) & 255]) & _M32) ^ s2[(l >> 8) & 255]) + s3[l & 255]) & _M32
        r ^= p[i + 1]
        l ^= ((((s0[r >> 24] + s1[(r >> 16) & 255]) & _M32) ^ s2[(r >> 8) & 255]) + s3[r & 255]) & _M32
    # undo last swap, apply P17/P18
    return r ^ p[17], l ^ p[16]


def _bf_decrypt_words(l, r, p, s0, s1, s2, s3):
    for i in range(17, 1, -2):
        l ^= p[i]
        r ^= ((((s0[l >> 24] + s1[(l >> 16) & 255]) & _M32) ^ s2[(l >> 8) & 255]) + s3[l & 255]) & _M32
        r ^= p[i - 1]
        l ^= ((((s0[r >> 24] + s1[(r >> 16) & 255]) & _M32) ^ s2[(r >> 8) & 255]) + s3[r & 255]) & _M32
    return r ^ p[0], l ^ p[1]


class _BlowfishState(object):
    block_size = 8

    def _init_state(self):
        self._p = list(_BF_P_INIT)
        self._s = [list(x) for x in _BF_S_INIT]

    def _xor_key_into_p(self, key):
        if not key:
            return
        p = self._p
        n = len(key)
        j = 0
        for i in range(18):
            w = 0
            for _ in range(4):
                w = (w << 8) | key[j]
                j += 1
                if j == n:
                    j = 0
            p[i] ^= w

    def _expand(self, salt_words):
        """Replace P and S with the chained encryptions.  salt_words is a
        cyclic sequence of 32-bit words XORed into the block before each
        encryption (all-zero / empty for plain Blowfish)."""
        p = self._p
        s0, s1, s2, s3 = self._s
        l = r = 0
        ns = len(salt_words)
        k = 0
        for arr in (p, s0, s1, s2, s3):
            for i in range(0, len(arr), 2):
                if ns:
                    l ^= salt_words[k]
                    r ^= salt_words[k + 1]
                    k += 2
                    if k >= ns:
                        k = 0
                l, r = _bf_encrypt_words(l, r, p, s0, s1, s2, s3)
                arr[i] = l
                arr[i + 1] = r

    def encrypt_block(self, block):
        _check_block(block, 8)
        l, r = struct.unpack(">2I", block)
        s = self._s
        l, r = _bf_encrypt_words(l, r, self._p, s[0], s[1], s[2], s[3])
        return struct.pack(">2I", l, r)

    def decrypt_block(self, block):
        _check_block(block, 8)
        l, r = struct.unpack(">2I", block)
        s = self._s
        l, r = _bf_decrypt_words(l, r, self._p, s[0], s[1], s[2], s[3])
        return struct.pack(">2I", l, r)


class Blowfish(_BlowfishState):
    """Blowfish with a 4..56 byte key (32..448 bits)."""

    key_sizes = tuple(range(4, 57))

    def __init__(self, key):
        key = bytes(key)
        if not 4 <= len(key) <= 56:
            raise ValueError("Blowfish key must be 4..56 bytes long")
        self.key = key
        self._init_state()
        self._xor_key_into_p(key)
        self._expand(())


class EksBlowfish(_BlowfishState):
    """Expensive-key-schedule Blowfish of the bcrypt paper.

        state <- InitState()
        state <- ExpandKey(state, salt, key)
        repeat 2**cost times:
            (a) state <- ExpandKey(state, 0, key)
            (b) state <- ExpandKey(state, 0, salt)

    With invert=True (default) the loop body is (a) then (b): this is the
    order of the OpenBSD implementation and of every deployed bcrypt hash
    ($2a$/$2b$/$2y$).  With invert=False the order is (b) then (a), which is
    how the pseudo-code in the USENIX'99 paper is printed.  (The keyword has
    the same meaning as `invert` in Crypto.Cipher._EKSBlowfish.)

    key: 0..72 bytes (bcrypt feeds password||NUL, truncated to 72 bytes; an
    empty key XORs nothing into P -- note that the library under test documents
    the empty key as legal but its C code never returns for it);
    salt: 16 bytes; cost: 0..31.  The resulting object is a Blowfish ECB
    block cipher (encrypt_block / decrypt_block)."""

    def __init__(self, key, salt, cost, invert=True):
        key = bytes(key)
        salt = bytes(salt)
        if len(key) > 72:
            raise ValueError("EksBlowfish key must be at most 72 bytes long")
        if len(salt) != 16:
            raise ValueError("EksBlowfish salt must be 16 bytes long")
        if not 0 <= cost <= 31:
            raise ValueError("EksBlowfish cost must be in 0..31")
        self.key = key
        self.salt = salt
        self.cost = cost
        salt_words = struct.unpack(">4I", salt)
        self._init_state()
        # ExpandKey(state, salt, key)
        self._xor_key_into_p(key)
        self._expand(salt_words)
        for _ in range(1 << cost):
            if invert:
                self._xor_key_into_p(key)
                self._expand(())
                self._xor_key_into_p(salt)
                self._expand(())
            else:
                self._xor_key_into_p(salt)
                self._expand(())
                self._xor_key_into_p(key)
                self._expand(())


# ===========================================================================
# CAST-128  (RFC 2144)
# ===========================================================================

# S-boxes S1..S8 of RFC 2144 Appendix A, 256 big-endian 32-bit words each,
# as hexadecimal strings (validated by the RFC 2144 B.1 vectors in self_test).
_CAST_S1_HEX = (
    "30fb40d49fa0ff0b6beccd2f3f258c7a1e213f2f9c004dd36003e540cf9fc949"
    "bfd4af2788bbbdb5e203409098d096756e63a0e015c361d2c2e7661d22d4ff8e"
    "28683b6fc07fd059ff2379c8775f50e243c340d3df2f8656887ca41aa2d2bd2d"
    "a1c9e0d6346c481961b76d8722540f2f2abe32e1aa54166b22568e3aa2d341d0"
    "66db40c8a784392f004dff2f2db9d2de97943fac4a97c1d8527644b7b5f437a7"
    "b82cbaefd751d1596ff7f0ed5a097a1f827b68d090ecf52e22b0c054bc8e5935"
    "4b6d2f7f50bb64a2d2664910bee5812db7332290e93b159fb48ee4114bff345d"
    "fd45c240ad31973fc4f6d02e55fc8165d5b1caada1ac2daea2d4b76dc19b0c50"
    "882240f20c6e4f38a4e4bfd74f5ba272564c1d2fc59c5319b949e354b04669fe"
    "b1b6ab8ac71358dd6385c545110f935d57538ad56a390493e63d37e02a54f6b3"
    "3a787d5f6276a0b519a6fcdf7a42206a29f9d4d5f61b1891bb72275eaa508167"
    "38901091c6b505eb84c7cb8c2ad75a0f874a1427a2d1936b2ad286afaa56d291"
    "d7894360425c750d93b39e26187184c96c00b32d73e2bb14a0bebc3c54623779"
    "64459eab3f328b827718cf8259a2cea604ee002e89fe78e63fab0950325ff6c2"
    "81383f056963c5c876cb5ad6d49974c9ca180dcf380782d5c7fa5cf68ac31511"
    "35e79e1347da91d0f40f9086a7e2419e31366241051ef495aa573b044a805d8d"
    "548300d000322a3cbf64cddfba57a68e75c6372b50afd341a7c13275915a0bf5"
    "6b54bfab2b0b1426ab4cc9d7449ccd82f7fbf265ab85c5f31b55db94aad4e324"
    "cfa4bd3f2deaa3e29e204d02c8bd25aceadf55b3d5bd9e98e31231b22ad5ad6c"
    "954329deadbe4528d8710f69aa51c90faa786bf622513f1eaa51a79b2ad344cc"
    "7b5a41f0d37cfbad1b06950541ece491b4c332e6032268d4c9600accce387e6d"
    "bf6bb16c6a70fb780d03d9c9d4df39dee01063da4736f4645ad328d8b347cc96"
    "75bb0fc398511bfb4ffbcc35b58bcf6ae11f0abcbfc5fe4aa70aec10ac39570a"
    "3f04442f6188b153e0397a2e5727cb799ceb418f1cacd68d2ad37c960175cb9d"
    "c69dff09c75b65f0d9db40d8ec0e77794744ead4b11c3274dd24cb9e7e1c54bd"
    "f01144f9d2240eb19675b3fda3ac3755d47c27af51c85f4d56907596a5bb15e6"
    "580304f0ca042cf1011a37ea8dbfaadb35ba3e4a3526ffa0c37b4d09bc306ed9"
    "98a526665648f725ff5e569d0ced63d07c63b2cf700b45e1d5ea50f185a92872"
    "af1fbda7d4234870a7870bf32d3b4d7942e041980cd0ede726470db8f881814c"
    "474d6ad77c0c5e5cd1231959381b7298f5d2f4dbab8386536e2f1e2383719c9e"
    "bd91e0469a56456edc39200c20c8c571962bda1ce1e696ffb141ab087cca89b9"
    "1a69e78302cc4843a2f7c579429ef47d427b169c5ac9f049dd8f0f005c8165bf"
)
_CAST_S2_HEX = (
    "1f201094ef0ba75b69e3cf7e393f4380fe61cf7aeec5207a55889c9472fc0651"
    "ada7ef794e1d7235d55a63cede0436ba99c430ef5f0c079418dcdb7da1d6eff3"
    "a0b52f7b59e83605ee15b094e9ffd909dc440086ef944459ba83ccb3e0c3cdfb"
    "d1da41813b092ab1f997f1c1a5e6cf7b01420ddbe4e7ef5b25a1ff41e180f806"
    "1fc41080179bee7ad37ac6a9fe5830a498de8b7f77e83f4e7992926924fa9f7b"
    "e113c85bacc40083d7503525f7ea615f621431540d554b635d681121c866c359"
    "3d63cf73cee234c0d4d87e875c672b21071f618139f7627f361e3084e4eb573b"
    "602f64a4d63acd9c1bbc46359e81032d2701f50c99847ab4a0e3df79ba6cf38c"
    "108430942537a95ef46f6ffea1ff3b1f208cfb6a8f458c74d9e0a2274ec73a34"
    "fc884f693e4de8dfef0e00883559648d8a45388c1d804366721d9bfda58684bb"
    "e8256333844e8212128d8098fed33fb4ce280ae127e19ba5d5a6c252e49754bd"
    "c5d655ddeb66706477840b4da1b6a80184db26a9e0b5671421f043b7e5d05860"
    "54f03084066ff472a31aa153dadc4755b5625dbf68561be683ca6b942d6ed23b"
    "eccf01dba6d3d0bab6803d5caf77a70933b4a34c397bc8d65ee22b955f0e5304"
    "81ed6f6120e74364b45e1378de18639b881ca122b96726d18049a7e822b7da7b"
    "5e552d255272d23779d2951cc60d894c488cb4021ba4fe5ba4b09f6b1ca815cf"
    "a20c30058871df63b9de2fcb0cc6c9e90beeff53e3214517b45428359f63293c"
    "ee41e7296e1d2d7c500452861e6685f3f33401c630a22c9531a7085060930f13"
    "73f98417a1269859ec645c4452c877a9cdff33a6a02b17417cbad9a22180036f"
    "50d99c08cb3f4861c26bd76564a3f6ab8034267625a75e7be4e6d1fc20c710e6"
    "cdf0b68017844d3b31eef84d7e0824e42ccb49eb846a3bae8ff77888ee5d60f6"
    "7af756732fdd5cdba11631c130f66f43b3faec54157fd7faef8579ccd152de58"
    "db2ffd5e8f32ce19306af97a02f03ef899319ad5c242fa0fa7e3ebb0c68e4906"
    "b8da230c80823028dcdef3c8d35fb171088a1bc8bec0c56061a3c9e8bca8f54d"
    "c72feffa22822e9982c570b4d8d94e898b1c34bc301e16e6273be979b0ffeaa6"
    "61d9b8c600b24869b7ffce3f08dc283b43daf65af7e197987619b72f8f1c9ba4"
    "dc8637a016a7d3b19fc393b7a7136eebc6bcc63e1a513742ef6828bc520365d6"
    "2d6a77ab3527ed4b821fd216095c6e2edb92f2fb5eea29cb145892f591584f7f"
    "5483697b2667a8cc851960488c4bacea833860d40d23e0f96c387e8a0ae6d249"
    "b284600cd835731ddcb1c647ac4c56ea3ebd81b3230eabb06438bc87f0b5b1fa"
    "8f5ea2b3fc1846420a036b7a4fb089bd649da589a345415e5c0383233e5d3bb9"
    "43d795727e6dd07c06dfdf1e6c6cc4ef7160a53973bfbe70838776054523ecf1"
)
_CAST_S3_HEX = (
    "8defc24025fa5d9feb903dbfe810c90747607fff369fe44b8c1fc644aececa90"
    "beb1f9bfeefbcaeae8cf195051df07ae920e8806f0ad0548e13c8d83927010d5"
    "11107d9f07647db9b2e3e4d43d4f285eb9afa820fade82e0a067268b8272792e"
    "553fb2c0489ae22bd4ef9794125e3fbc21fffcee825b1bfd9255c5ed1257a240"
    "4e1a8302bae07fff528246e78e57140e3373f7bf8c9f8188a6fc4ee8c982b5a5"
    "a8c01db7579fc26467094f31f2bd3f5f40fff7c11fb78dfc8e6bd2c1437be59b"
    "99b03dbfb5dbc64b638dc0e655819d99a197c81c4a012d6ec5884a28ccc36f71"
    "b843c2136c0743f18309893c0feddd5f2f7fe850d7c07f7e02507fbf5afb9a04"
    "a747d2d01651192eaf70bf3e58c313805f98302e727cc3c40a0fb4020f7fef82"
    "8c96fdad5d2c2aae8ee99a4950da88b88427f4a01eac5790796fb4498252dc15"
    "efbd7d9ba672597dada840d845f54504fa5d7403e83ec3054f91751a925669c2"
    "23efe941a903f12e60270df20276e4b694fd6574927985b28276dbcb02778176"
    "f8af918d4e48f79e8f616ddfe29d840e842f7d83340ce5c896bbb68293b4b148"
    "ef303cab984faf28779faf9b92dc560d224d1e208437aa887d29dc962756d3dc"
    "8b907ceeb51fd240e7c07ce3e566b4a1c3e9615e3cf8209d6094d1e3cd9ca341"
    "5c76460e00ea983bd4d67881fd47572cf76cedd9bda8229c127dadaa438a074e"
    "1f97c090081bdb8a93a07ebeb938ca1597b03cff3dc2c0f88d1ab2ec64380e51"
    "68cc7bfbd90f2788124901815de5ffd4dd7ef86a76a2e214b9a40368925d958f"
    "4b39fffaba39aee9a4ffd30bfaf7933b6d498623193cbcfa27627545825cf47a"
    "61bd8ba0d11e42d1cead04f4127ea39210428db78272a9729270c4a8127de50b"
    "285ba1c83c62f44f35c0eaa5e805d231428929fbb4fcdf824fb66a530e7dc15b"
    "1f081fab108618aefcfd086df9ff2889694bcc11236a5cae12deca4d2c3f8cc5"
    "d2d02dfef8ef5896e4cf52da95155b67494a488cb9b6a80c5c8f82bc89d36b45"
    "3a609437ec00c9a9447152530a874b49d773bc407c34671c02717ef64feb5536"
    "a2d02fffd2bf60c4d43f03c050b4ef6d07478cd1006e1888a2e53f55b9e6d4bc"
    "a204801697573833d7207d67de0f8f3d72f87b33abcc4f337688c55d7b00a6b0"
    "947b0001570075d2f9bb88f88942019e4264a5ff856302e072dbd92bee971b69"
    "6ea22fde5f08ae2baf7a616de5c98767cf1febd261efc8c2f1ac2571cc8239c2"
    "67214cb8b1e583d1b7dc3e627f10bdcef90a5c380ff0443d606e6dc660543a49"
    "5727c1482be98a1d8ab4173820e1be24af96da0f6845842599833be5600d457d"
    "282f93508334b362d91d11202b6d8da0642b1e319c305a0052bce6881b03588a"
    "f7baefd54142ed9ca4315c1183323ec5dfef4636a133c501e9d3531cee353783"
)
_CAST_S4_HEX = (
    "9db304201fb6e9dea7be7befd273a2984a4f7bdb64ad8c5785510443fa020ed1"
    "7e287affe60fb663095f35a179ebf120fd059d436497b7b1f3641f63241e4adf"
    "28147f5f4fa2b8cdc94300400cc32220fdd30b30c0a5374f1d2d00d924147b15"
    "ee4d111a0fca516771ff904c2d195ffe1a05645f0c13fefe081b08ca05170121"
    "80530100e83e5efeac9af4f87fe72701d2b8ee5f06df4261bb9e9b8a7293ea25"
    "ce84ffdff57188013dd64b04a26f263b7ed48400547eebe6446d4ca06cf3d6f5"
    "2649abdfaea0c7f536338cc1503f7e93d377206111b638e172500e03f80eb2bb"
    "abe0502eec8d77de57971e81e14f6746c93354006920318f081dbb99ffc304a5"
    "4d3518057f3d5ce3a6c866c65d5bcca9daec6fea9f926f919f46222f3991467d"
    "a5bf6d8e1143c44f43958302d0214eeb022083b83fb6180c18f8931e281658e6"
    "26486e3e8bd78a707477e4c1b506e07cf32d0a2579098b02e4eabb8128123b23"
    "69dead381574ca16df871b62211c40b7a51a9ef90014377b041e8ac809114003"
    "bd59e4d2e3d156d54fe876d52f91a340557be8de00eae4a70ce5c2ec4db4bba6"
    "e756bdffdd3369acec17b0350657232799afc8b056c8c3916b65811c5e146119"
    "6e85cb75be07c002c2325577893ff4ec5bbfc92dd0ec3b25b7801ab78d6d3b24"
    "20c763efc366a5fc9c3828800ace3205aac9548aeca1d7c7041afa321d16625a"
    "6701902c9b757a5431d477f79126b03136cc6fdbc70b8b46d9e66a4856e55a79"
    "026a4ceb52437eff2f8f76b40df980a58674cde3edda04eb17a9be042c18f4df"
    "b7747f9dab2af7b4efc34d202e096b7c1741a254e5b6a035213d42f62c1c7c26"
    "61c2f50f6552daf9d2c231f825130f69d8167fa20418f2c8001a96a60d1526ab"
    "63315c215e0a72ec49bafefd187908d98d0dbd86311170a73e9b640ccc3e10d7"
    "d5cad3b60caec388f73001e16c728aff71eae2a11f9af36ecfcbd12fc1de8417"
    "ac07be6bcb44a1d88b9b0f56013988c3b1c52fcab4be31cdd878280612a3a4e2"
    "6f7de53258fd7eb6d01ee90024adffc2f4990fc59711aac5001d7b9582e5e7d2"
    "109873f600613096c32d9521ada121ff299084157fbb977faf9eb3db29c9ed2a"
    "5ce2a465a730f32cd0aa3fe88a5cc091d49e2ce70ce454a9d60acd86015f1919"
    "77079103dea03af678a8565edee356df21f05cbe8b75e387b3c50651b8a5c3ef"
    "d8eeb6d2e523be77c21545292f69efdfafe67afbf470c4b2f3e0eb5bd6cc9876"
    "39e4460c1fda85381987832fca007367a99144f8296b299e492fc2959266beab"
    "b5676e699bd3dddadf7e052fdb25701c1b5e51eef65324e66afce36c0316cc04"
    "8644213eb7dc59d07965291fccd6fd4341823979932bcdf6b657c34d4edfd282"
    "7ae5290c3cb9536b851e20fe9833557e13ecf0b0d3ffb3723f85c5c10aef7ed2"
)
_CAST_S5_HEX = (
    "7ec90c042c6e74b99b0e66dfa6337911b86a7fff1dd358f544dd9d441731167f"
    "08fbf1fae7f511ccd2051b00735aba002ab722d8386381cbacf6243a69befd7a"
    "e6a2e77ff0c720cdc4494816ccf5c1803885164015b0a848e68b18cb4caadeff"
    "5f480a010412b2aa259814fc41d0efe24e40b48d248eb6fb8dba1cfe41a99b02"
    "1a550a04ba8f65cb7251f4e795a51725c106ecd797a5980ac539b9aa4d79fe6a"
    "f2f3f76368af8040ed0c9e5611b4958be1eb5a888709e6b0d7e071564e29fea7"
    "6366e52d02d1c000c4ac8e059377f5710c05372a578535f22261be02d642a0c9"
    "df13a28074b55bd2682199c0d421e5ec53fb3ce8c8adedb328a87fc93d959981"
    "5c1ff900fe38d3990c4eff0b062407eaaa2f4fb14fb9697690c79505b0a8a774"
    "ef55a1ffe59ca2c2a6b62d27e66a4263df65001f0ec50966dfdd55bc29de0655"
    "911e739a17af897532c7911c89f894680d01e980524755f403b63cc90cc844b2"
    "bcf3f0aa87ac36e9e53a742601b3d82b1a9e744964ee2d7ecddbb1da01c94910"
    "b868bf800d26f3fd9342ede704a5c284636737b650f5b616f24766e38eca36c1"
    "136e05dbfef18391fb887a37d6e7f7d4c7fb7dc93063fcdfb6f589deec2941da"
    "26e46695b7566419f654efc5d08d58b748925401c1bacb7fe5ff550fb6083049"
    "5bb5d0e887d72e5aab6a6ee1223a66cec62bf3cd9e0885f968cb3e47086c010f"
    "a21de820d18b69def3f65777fa02c3f6407edac3cbb3d5501793084db0d70eba"
    "0ab378d5d951fb0cded7da564124bbe494ca0b560f5755d1e0e1e56e6184b5be"
    "580a249f94f74bc0e327888e9f7b5561c3dc028005687715646c6bd744904db3"
    "66b4f0a3c0f1648a697ed5af49e92ff6309e374f2cb6356a858085734991f840"
    "76f0ae02083be84d28421c9a44489406736e4cb8c10929108bc95fc67d869cf4"
    "134f616f2e77118db31b2be1aa90b4723ca5d7177d161bba9cad9010af462ba2"
    "9fe459d245d34559d9f2da13dbc65487f3e4f94e176d486f097c13ea631da5c7"
    "445f7382175683f4cdc66a9770be0288b3cdcf726e5dd2f320936079459b80a5"
    "be60e2dba9c23101eba5315c224e42f21c5c1572f6721b2c1ad2fff38c25404e"
    "324ed72f4067b7fd0523138e5ca3bc78dc0fd66e75922283784d6b1758ebb16e"
    "44094f853f481d87fcfeae7b77b5ff768c2302bfaaf475565f46b02a2b092801"
    "3d38f5f70ca81f3652af4a8a66d5e7c0df3b0874950551101b5ad7a8f61ed5ad"
    "6cf6e47920758184d0cefa6588f7be584a0468260ff6f8f3a09c7f705346aba0"
    "5ce96c28e176eda36bac307f376829d285360fa917e3fe2a24b79767f5a96b20"
    "d6cd259568ff1ebf7555442cf19f06bef9e0659aeeb9491d34010718bb30cab8"
    "e822fe1588570983750e6249da627e555e76ffa8b15345466d47de08efe9e7d4"
)
_CAST_S6_HEX = (
    "f6fa8f9d2cac6ce14ca34867e2337f7c95db08e7016843b4eced5cbc325553ac"
    "bf9f0960dfa1e2ed83f0579d63ed86b91ab6a6b8de5ebe39f38ff7328989b138"
    "33f14961c01937bdf506c6dae4625e7ea308ea994e23e33c79cbd7cc48a14367"
    "a3149619fec94bd5a114174aeaa01866a084db2d09a8486fa888614a2900af98"
    "01665991e1992863c8f30c602e78ef3cd0d51932cf0fec14f7ca07d2d0a82072"
    "fd41197e9305a6b0e86be3da74bed3cd372da53c4c7f4448dab5d4406dba0ec3"
    "083919a79fbaeed949dbcfb04e670c535c3d9c0164bdb9412c0e636aba7dd9cd"
    "ea6f7388e70bc76235f29adb5c4cdd8df0d48d8cb88153e208a198661ae2eac8"
    "284caf89aa9282239334be533b3a21bf16434be39aea3906efe8c36ef890cdd9"
    "80226daec340a4a3df7e9c09a694a8075b7c5ecc221db3a69a69a02f68818a54"
    "ceb2296f53c0843afe89365525bfe68ab4628abccf222ebf25ac6f48a9a99387"
    "53bddb65e76ffbe7e967fd780ba935638e342bc1e8a11be94980740dc8087dfc"
    "8de4bf99a11101a07fd37975da5a26c0e81f994f9528cd89fd339fedb87834bf"
    "5f04456d22258698c9c4c83b2dc156be4f628daa57f55ec5e2220abed2916ebf"
    "4ec75b9524f2c3c042d15d99cd0d7fa07b6e27ffa8dc8af07345c106f41e232f"
    "35162386e6ea89263333b094157ec6f2372b74af692573e4e9a9d848f3160289"
    "3a62ef1da787e238f3a5f67674364853209510634576698db6fad407592af950"
    "36f735234cfb6e877da4cec06c152daacb0396a8c50dfe5dfcd707ab0921c42f"
    "89dff0bb5fe2be78448f4f33754613c92b05d08d48b9d585dc049441c8098f9b"
    "7dede786c39a3373424100056a0917510ef3c8a6890072d628207682a9a9f7be"
    "bf32679dd45b5b75b353fd00cbb0e358830f220a1f8fb214d372cf08cc3c4a13"
    "8cf63166061c87be88c98f886062e39747cf8e7ab6c852833cc2acfb3fc06976"
    "4e8f025264d8314dda3870e31e665459c10908f0513021a56c5b68b7822f8aa0"
    "3007cd3e74719eefdc872681073340d47e432fd90c5ec2418809286cf592d891"
    "08a930f6957ef305b7fbffbdc266e96f6fe4ac98b173ecc0bc60b42a953498da"
    "fba1ae122d4bd7360f25faaba4f3fcebe2969123257f0c3d9348af49361400bc"
    "e8816f4a3814f200a3f940439c7a54c2bc704f57da41e7f9c25ad33a54f4a084"
    "b17f550559357cbeedbd15c87f97c5abba5ac7b5b6f6deaf3a479c3a5302da25"
    "653d7e6a54268d4951a477ea5017d55bd7d25d8844136c760404a8c8b8e5a121"
    "b81a928a60ed586997c55b96eaec991b2993591301fdb7f1088e8dfa9ab6f6f5"
    "3b4cbf9f4a5de3abe6051d35a0e1d855d36b4cf1f544edebb0e93524bebb8fbd"
    "a2d762cf49c92f5438b5f3317128a45448392905a65b1db8851c97bdd675cf2f"
)
_CAST_S7_HEX = (
    "85e04019332bf567662dbfffcfc656932a8d7f6fab9bc912de6008a12028da1f"
    "0227bce74d64291618fac30050f18b822cb2cb11b232e75c4b3695f2b28707de"
    "a05fbcf6cd4181e9e150210ce24ef1bdb168c381fde4e7895c79b0d81e8bfd43"
    "4d49500138be4341913cee1d92a79c3f089766bebaeeadf41286becfb6eacb19"
    "2660c2007565bde464241f7a8248dca9c3b3ad66281360860bd8dfa8356d1cf2"
    "107789beb3b2e9ce0502aa8f0bc0351e166bf52aeb12ff82e3486911d34d7516"
    "4e7b3aff5f43671b9cf6e0374981ac83334266ce8c9341b7d0d854c0cb3a6c88"
    "47bc28294725ba37a66ad22b7ad61f1e0c5cbafa4437f107b6e7996242d2d816"
    "0a961288e1a5c06e13749e6772fc081ab1d139f7f9583745cf19df58bec3f756"
    "c06eba3007211b2445c28829c95e317fbc8ec51138bc46e9c6e6fa14bae8584a"
    "ad4ebc46468f508b7829435ff124183b821dba9faff60ff4ea2c4e6d16e39264"
    "92544a8b009b4fc3aba68ced9ac96f7806a5b79ab2856e6e1aec3ca9be838688"
    "0e0804e955f1be56e7e5363bb3a1f25df7debb8561fe033c167462333c034c28"
    "da6d0c7479aac56c3ce4e1ad51f0c80298f8f35a1626a49feed82b291d382fe3"
    "0c4fb99abb3257783ec6d97b6e77a6a9cb658b5cd45230c72bd1408b60c03eb7"
    "b9068d78a33754f4f430c87dc8a71302b96d8c32ebd4e7bebe8b9d2d7979fb06"
    "e72253088b75cf7711ef8da4e083c8588d6b786f5a6317a6fa5cf7a05dda0033"
    "f28ebfb0f5b9c310a0eac28008b9767aa3d9d2b079d34217021a718d9ac6336a"
    "2711fd60438050e3069908a83d7fedc4826d2bef4eeb8476488dcf2536c9d566"
    "28e74e41c2610aca3d49a9cfbae3b9dfb65f8de692aeaf643ac7d5e69ea80509"
    "f22b017da4173f70dd1e16c315e0d7f950b1b8872b9f4fd5625aba826a017962"
    "2ec01b9c15488aa9d716e74040055a2c93d29a22e32dbf9a058745b93453dc1e"
    "d699296e496cff6f1c9f4986dfe2ed07b87242d119de7eae053e561a15ad6f8c"
    "66626c1c7154c24cea082b2a93eb293917dcb0f058d4f2ae9ea294fb52cf564c"
    "9883fe662ec40581763953c301d6692ed3a0c108a1e7160ee4f2dfa6693ed285"
    "749046984c2b0edd4f7576565d393378a132234f3d321c5dc3f5e1944b269301"
    "c79f022f3c997e7e5e4f95043ffafbbd76f7ad0e296693f43d1fce6fc61e45be"
    "d3b5ab34f72bf9b71b0434c04e72b5675592a33db5229301cfd2a87f60aeb767"
    "1814386b30bcc33d38a0c07dfd1606f2c363519b589dd3905479f8e61cb8d647"
    "97fd61a9ea7759f42d57539d569a58cfe84e63ad462e1b786580f87ef3817914"
    "91da55f440a230f3d1988f35b6e318d23ffa50bc3d40f021c3c0bdae4958c24c"
    "518f36b284b1d3700fedce83878ddadaf2a279c794e01be890716f4b954b8aa3"
)
_CAST_S8_HEX = (
    "e216300dbbddfffca7ebdabd356480957789f8b7e6c1121b0e241600052ce8b5"
    "11a9cfb0e5952f11ece7990a9386d1742a42931c76e38111b12def3a37ddddfc"
    "de9adeb10a0cc32cbe19702984a00940bb243a0fb4d137cfb44e79f0049eedfd"
    "0b15a15d480d31688bbbde5a669ded42c7ece8313f8f95e772df191b7580330d"
    "940742515c7dcdfaabbe6d63aa402164b301d40a02e7d1ca53571dae7a3182a2"
    "12a8ddecfdaa335d176f43e871fb46d438129022ce949ad4b84769ad965bd862"
    "82f3d05566fb976715b80b4e1d5b47a04cfde06fc28ec4b857e8726e647a78fc"
    "99865d44608bd5936c200e0339dc5ff65d0b00a3ae63aff27e8bd63270108c0c"
    "bbd350492998df04980cf42a9b6df4919e7edd530691854858cb7e073b74ef2e"
    "522fffb1d24708cc1c7e27cda4eb215b3cf1d2e219b47a38424f761835856039"
    "9d17dee727eb35e6c9aff67b36baf5b809c467cdc18910b1e11dbf7b06cd1af8"
    "7170c6082d5e3354d4de495a64c6d006bcc0c62c3dd00db3708f8f3477d51b42"
    "264f620f24b8d2bf15c1b79e46a52564f8d7e54e3e3781607895cda5859c15a5"
    "e6459788c37bc75fdb07ba0c0676a3ab7f229b1e31842e7b24259fd7f8bef472"
    "835ffcb86df4c1f296f5b195fd0af0fcb0fe134ce2506d3d4f9b12eaf215f225"
    "a223736f9fb4c42825d0497934c713f8c4618187ea7a6e987cd16efc1436876c"
    "f1544107bedeee1456e9af27a04aa4413cf7c89992ecbae6dd67016d151682eb"
    "a842eedffdba60b4f1907b7520e3030f24d8c29ee139673befa63fb871873054"
    "b6f2cf3b9f326442cb15a4ccb01a4504f1e47d8d844a1be5bae7dfdc42cbda70"
    "cd7dae0a57e85b7ad53f5af620cf4d8ccea4d42879d130a43486ebfb33d3cddc"
    "77853b5337effcb5c5068778e580b3e64e68b8f4c5c8b37e0d809ea2398feb7c"
    "132a4f9443b7950e2fee7d1c223613bddd06caa237df932bc4248289acf3ebc3"
    "5715f6b7ef3478ddf267616fc148cbe49052815e5e410fabb48a24652eda7fa4"
    "e87b40e4e98ea0845889e9e1efd390fcdd07d35bdb48569438d7e5b257720101"
    "730edebc5b64311394917e4f503c2fba646f12827523d24ae0779695f9c17a8f"
    "7a5b2121d187b89629263a4dba510cdf81f47c9fad1163edea7b59651a00726e"
    "1140309200da6d774a0cdd61ad1f4603605bdfb09eedc36422ebe6a8cee7d28a"
    "a0e736a05564a6b910853209c7eb8f372de705ca8951570fdf09822bbd691a6c"
    "aa12e4f287451c0fe0f6a27a3ada48194cf1764f0d771c2b67cdb156350d8384"
    "5938fa0f42399ef336997b070e84093d4aa93e618360d87b1fa98b0c1149382c"
    "e97625a50614d1b70e25244b0c768347589e8d820d2059d1a466bb1ef8da0a82"
    "04f19130ba6e4ec0992651641ee7230d50b2ad80eaee68018db2a283ea8bf59e"
)


def _words_from_hex(h):
    raw = bytes.fromhex(h)
    return struct.unpack(">%dI" % (len(raw) // 4), raw)


_CAST_S = (None,) + tuple(_words_from_hex(h) for h in (
    _CAST_S1_HEX, _CAST_S2_HEX, _CAST_S3_HEX, _CAST_S4_HEX,
    _CAST_S5_HEX, _CAST_S6_HEX, _CAST_S7_HEX, _CAST_S8_HEX))


def _rol32(x, n):
    n &= 31
    return ((x << n) | (x >> (32 - n))) & _M32 if n else x


class CAST128(object):
    """CAST-128 / CAST5 (RFC 2144), key 5..16 bytes (40..128 bits).
    12 rounds for keys up to 80 bits, 16 rounds otherwise."""

    block_size = 8
    key_sizes = tuple(range(5, 17))

    def __init__(self, key):
        key = bytes(key)
        if not 5 <= len(key) <= 16:
            raise ValueError("CAST-128 key must be 5..16 bytes long")
        self.key = key
        self.rounds = 12 if len(key) <= 10 else 16
        self._km, self._kr = self._schedule(key + b"\x00" * (16 - len(key)))

    @staticmethod
    def _schedule(key16):
        S5, S6, S7, S8 = _CAST_S[5], _CAST_S[6], _CAST_S[7], _CAST_S[8]
        x = list(key16)          # x0..xF
        z = [0] * 16
        K = []

        def put(dst, off, word):
            dst[off] = word >> 24
            dst[off + 1] = (word >> 16) & 255
            dst[off + 2] = (word >> 8) & 255
            dst[off + 3] = word & 255

        def get(src, off):
            return (src[off] << 24) | (src[off + 1] << 16) | (src[off + 2] << 8) | src[off + 3]

        def x_to_z():
            put(z, 0x0, get(x, 0x0) ^ S5[x[0xD]] ^ S6[x[0xF]] ^ S7[x[0xC]] ^ S8[x[0xE]] ^ S7[x[0x8]])
            put(z, 0x4, get(x, 0x8) ^ S5[z[0x0]] ^ S6[z[0x2]] ^ S7[z[0x1]] ^ S8[z[0x3]] ^ S8[x[0xA]])
            put(z, 0x8, get(x, 0xC) ^ S5[z[0x7]] ^ S6[z[0x6]] ^ S7[z[0x5]] ^ S8[z[0x4]] ^ S5[x[0x9]])
            put(z, 0xC, get(x, 0x4) ^ S5[z[0xA]] ^ S6[z[0x9]] ^ S7[z[0xB]] ^ S8[z[0x8]] ^ S6[x[0xB]])

        def z_to_x():
            put(x, 0x0, get(z, 0x8) ^ S5[z[0x5]] ^ S6[z[0x7]] ^ S7[z[0x4]] ^ S8[z[0x6]] ^ S7[z[0x0]])
            put(x, 0x4, get(z, 0x0) ^ S5[x[0x0]] ^ S6[x[0x2]] ^ S7[x[0x1]] ^ S8[x[0x3]] ^ S8[z[0x2]])
            put(x, 0x8, get(z, 0x4) ^ S5[x[0x7]] ^ S6[x[0x6]] ^ S7[x[0x5]] ^ S8[x[0x4]] ^ S5[z[0x1]])
            put(x, 0xC, get(z, 0xC) ^ S5[x[0xA]] ^ S6[x[0x9]] ^ S7[x[0xB]] ^ S8[x[0x8]] ^ S6[z[0x3]])

        for _half in range(2):
            x_to_z()
            K.append(S5[z[0x8]] ^ S6[z[0x9]] ^ S7[z[0x7]] ^ S8[z[0x6]] ^ S5[z[0x2]])
            K.append(S5[z[0xA]] ^ S6[z[0xB]] ^ S7[z[0x5]] ^ S8[z[0x4]] ^ S6[z[0x6]])
            K.append(S5[z[0xC]] ^ S6[z[0xD]] ^ S7[z[0x3]] ^ S8[z[0x2]] ^ S7[z[0x9]])
            K.append(S5[z[0xE]] ^ S6[z[0xF]] ^ S7[z[0x1]] ^ S8[z[0x0]] ^ S8[z[0xC]])
            z_to_x()
            K.append(S5[x[0x3]] ^ S6[x[0x2]] ^ S7[x[0xC]] ^ S8[x[0xD]] ^ S5[x[0x8]])
            K.append(S5[x[0x1]] ^ S6[x[0x0]] ^ S7[x[0xE]] ^ S8[x[0xF]] ^ S6[x[0xD]])
            K.append(S5[x[0x7]] ^ S6[x[0x6]] ^ S7[x[0x8]] ^ S8[x[0x9]] ^ S7[x[0x3]])
            K.append(S5[x[0x5]] ^ S6[x[0x4]] ^ S7[x[0xA]] ^ S8[x[0xB]] ^ S8[x[0x7]])
            x_to_z()
            K.append(S5[z[0x3]] ^ S6[z[0x2]] ^ S7[z[0xC]] ^ S8[z[0xD]] ^ S5[z[0x9]])
            K.append(S5[z[0x1]] ^ S6[z[0x0]] ^ S7[z[0xE]] ^ S8[z[0xF]] ^ S6[z[0xC]])
            K.append(S5[z[0x7]] ^ S6[z[0x6]] ^ S7[z[0x8]] ^ S8[z[0x9]] ^ S7[z[0x2]])
            K.append(S5[z[0x5]] ^ S6[z[0x4]] ^ S7[z[0xA]] ^ S8[z[0xB]] ^ S8[z[0x6]])
            z_to_x()
            K.append(S5[x[0x8]] ^ S6[x[0x9]] ^ S7[x[0x7]] ^ S8[x[0x6]] ^ S5[x[0x3]])
            K.append(S5[x[0xA]] ^ S6[x[0xB]] ^ S7[x[0x5]] ^ S8[x[0x4]] ^ S6[x[0x7]])
            K.append(S5[x[0xC]] ^ S6[x[0xD]] ^ S7[x[0x3]] ^ S8[x[0x2]] ^ S7[x[0x8]])
            K.append(S5[x[0xE]] ^ S6[x[0xF]] ^ S7[x[0x1]] ^ S8[x[0x0]] ^ S8[x[0xD]])
        km = K[:16]
        kr = [k & 31 for k in K[16:]]
        return km, kr

    def _f(self, i, d):
        S1, S2, S3, S4 = _CAST_S[1], _CAST_S[2], _CAST_S[3], _CAST_S[4]
        km = self._km[i]
        kr = self._kr[i]
        t = i % 3
        if t == 0:       # type 1: rounds 1,4,7,...
            v = _rol32((km + d) & _M32, kr)
            return ((((S1[v >> 24] ^ S2[(v >> 16) & 255]) - S3[(v >> 8) & 255]) & _M32) + S4[v & 255]) & _M32
        if t == 1:       # type 2: rounds 2,5,8,...
            v = _rol32(km ^ d, kr)
            return ((((S1[v >> 24] - S2[(v >> 16) & 255]) & _M32) + S3[(v >> 8) & 255]) & _M32) ^ S4[v & 255]
        v = _rol32((km - d) & _M32, kr)   # type 3: rounds 3,6,9,...
        return ((((S1[v >> 24] + S2[(v >> 16) & 255]) & _M32) ^ S3[(v >> 8) & 255]) - S4[v & 255]) & _M32

    def encrypt_block(self, block):
        _check_block(block, 8)
        l, r = struct.unpack(">2I", block)
        for i in range(self.rounds):
            l, r = r, l ^ self._f(i, r)
        return struct.pack(">2I", r, l)

    def decrypt_block(self, block):
        _check_block(block, 8)
        l, r = struct.unpack(">2I", block)
        for i in range(self.rounds - 1, -1, -1):
            l, r = r, l ^ self._f(i, r)
        return struct.pack(">2I", r, l)


# ===========================================================================
# RC2  (RFC 2268)
# ===========================================================================

# PITABLE of RFC 2268 section 2 (validated by the RFC 2268 vectors in self_test).
_RC2_PITABLE_HEX = (
    "d978f9c419ddb5ed28e9fd794aa0d89dc67e37832b76538e624c6488448bfba2"
    "179a59f587b34f1361456d8d09817d32bd8f40eb86b77b0bf09521225c6b4e82"
    "54d66593ce60b21c7356c014a78cf1dc1275ca1f3bbee4d1423dd430a33cb626"
    "6fbf0eda4669075727f21d9bbc944303f811c7f690ef3ee706c3d52fc8661ed7"
    "08e8eade8052eef784aa72ac354d6a2a961ad2715a1549744b9fd05e0418a4ec"
    "c2e0416e0f51cbcc2491af50a1f47039997c3a8523b8b47afc02365b25559731"
    "2d5dfa98e38a92ae05df2910676cbac9d300e6cfe19ea82c6316013f58e289a9"
    "0d38341bab33ffb0bb480c5fb9b1cd2ec5f3db47e5a59c770aa62068fe7fc1ad"
)
_RC2_PITABLE = bytes.fromhex(_RC2_PITABLE_HEX)


class RC2(object):
    """RC2 (RFC 2268).  key: 1..128 bytes by the RFC (the library under test
    accepts 5..128); effective_keylen_bits T1 in 1..1024.  Default 1024 to
    mirror the library default `effective_keylen=1024`."""

    block_size = 8
    key_sizes = tuple(range(1, 129))

    def __init__(self, key, effective_keylen_bits=1024):
        key = bytes(key)
        t = len(key)
        t1 = effective_keylen_bits
        if not 1 <= t <= 128:
            raise ValueError("RC2 key must be 1..128 bytes long")
        if not 1 <= t1 <= 1024:
            raise ValueError("RC2 effective key length must be 1..1024 bits")
        self.key = key
        self.effective_keylen_bits = t1
        pi = _RC2_PITABLE
        L = bytearray(key) + bytearray(128 - t)
        t8 = (t1 + 7) // 8
        tm = 255 % (1 << (8 + t1 - 8 * t8))
        for i in range(t, 128):
            L[i] = pi[(L[i - 1] + L[i - t]) & 255]
        L[128 - t8] = pi[L[128 - t8] & tm]
        for i in range(127 - t8, -1, -1):
            L[i] = pi[L[i + 1] ^ L[i + t8]]
        self._k = [L[2 * i] | (L[2 * i + 1] << 8) for i in range(64)]

    def encrypt_block(self, block):
        _check_block(block, 8)
        r = list(struct.unpack("<4H", block))
        k = self._k
        s = (1, 2, 3, 5)
        j = 0

        def mix_round():
            nonlocal j
            for i in range(4):
                v = (r[i] + k[j] + (r[i - 1] & r[i - 2]) + ((~r[i - 1]) & r[i - 3])) & 0xFFFF
                j += 1
                r[i] = ((v << s[i]) | (v >> (16 - s[i]))) & 0xFFFF

        def mash_round():
            for i in range(4):
                r[i] = (r[i] + k[r[i - 1] & 63]) & 0xFFFF

        for _ in range(5):
            mix_round()
        mash_round()
        for _ in range(6):
            mix_round()
        mash_round()
        for _ in range(5):
            mix_round()
        return struct.pack("<4H", *r)

    def decrypt_block(self, block):
        _check_block(block, 8)
        r = list(struct.unpack("<4H", block))
        k = self._k
        s = (1, 2, 3, 5)
        j = 63

        def r_mix_round():
            nonlocal j
            for i in (3, 2, 1, 0):
                v = r[i]
                v = ((v >> s[i]) | (v << (16 - s[i]))) & 0xFFFF
                r[i] = (v - k[j] - (r[i - 1] & r[i - 2]) - ((~r[i - 1]) & r[i - 3])) & 0xFFFF
                j -= 1

        def r_mash_round():
            for i in (3, 2, 1, 0):
                r[i] = (r[i] - k[r[i - 1] & 63]) & 0xFFFF

        for _ in range(5):
            r_mix_round()
        r_mash_round()
        for _ in range(6):
            r_mix_round()
        r_mash_round()
        for _ in range(5):
            r_mix_round()
        return struct.pack("<4H", *r)


# ===========================================================================
# RC4
# ===========================================================================

class RC4(object):
    """Alleged RC4.  key 1..256 bytes; `drop` initial keystream bytes are
    discarded (RC4-drop[n]).  crypt() is stateful (continues the stream)."""

    def __init__(self, key, drop=0):
        key = bytes(key)
        if not 1 <= len(key) <= 256:
            raise ValueError("RC4 key must be 1..256 bytes long")
        s = list(range(256))
        j = 0
        n = len(key)
        for i in range(256):
            j = (j + s[i] + key[i % n]) & 255
            s[i], s[j] = s[j], s[i]
        self._s = s
        self._i = 0
        self._j = 0
        if drop:
            self.keystream(drop)

    def keystream(self, n):
        s = self._s
        i = self._i
        j = self._j
        out = bytearray(n)
        for k in range(n):
            i = (i + 1) & 255
            j = (j + s[i]) & 255
            s[i], s[j] = s[j], s[i]
            out[k] = s[(s[i] + s[j]) & 255]
        self._i = i
        self._j = j
        return bytes(out)

    def crypt(self, data):
        data = bytes(data)
        ks = self.keystream(len(data))
        return _xor_bytes(data, ks)

    encrypt = crypt
    decrypt = crypt


def _xor_bytes(a, b):
    n = len(a)
    if n != len(b):
        raise ValueError("length mismatch in xor")
    if n == 0:
        return b""
    return (int.from_bytes(a, "big") ^ int.from_bytes(b, "big")).to_bytes(n, "big")


# ===========================================================================
# Salsa20  (Bernstein, "Salsa20 specification")
# ===========================================================================

_SIGMA = struct.unpack("<4I", b"expand 32-byte k")
_TAU = struct.unpack("<4I", b"expand 16-byte k")


def _salsa20_rounds(x, rounds=20):
    x = list(x)

    def qr(a, b, c, d):
        t = (x[a] + x[d]) & _M32
        x[b] ^= ((t << 7) | (t >> 25)) & _M32
        t = (x[b] + x[a]) & _M32
        x[c] ^= ((t << 9) | (t >> 23)) & _M32
        t = (x[c] + x[b]) & _M32
        x[d] ^= ((t << 13) | (t >> 19)) & _M32
        t = (x[d] + x[c]) & _M32
        x[a] ^= ((t << 18) | (t >> 14)) & _M32

    for _ in range(rounds // 2):
        # columnround
        qr(0, 4, 8, 12)
        qr(5, 9, 13, 1)
        qr(10, 14, 2, 6)
        qr(15, 3, 7, 11)
        # rowround
        qr(0, 1, 2, 3)
        qr(5, 6, 7, 4)
        qr(10, 11, 8, 9)
        qr(15, 12, 13, 14)
    return x


def _salsa20_input(key, n16):
    key = bytes(key)
    if len(key) == 32:
        c = _SIGMA
        k0 = struct.unpack("<4I", key[:16])
        k1 = struct.unpack("<4I", key[16:])
    elif len(key) == 16:
        c = _TAU
        k0 = k1 = struct.unpack("<4I", key)
    else:
        raise ValueError("Salsa20 key must be 16 or 32 bytes long")
    n = struct.unpack("<4I", n16)
    return [c[0], k0[0], k0[1], k0[2], k0[3], c[1], n[0], n[1], n[2], n[3], c[2],
            k1[0], k1[1], k1[2], k1[3], c[3]]


def salsa20_block(key, nonce, counter):
    """64-byte Salsa20/20 output block number `counter` (0 <= counter < 2**64)
    for a 16- or 32-byte key and 8-byte nonce."""
    nonce = bytes(nonce)
    if len(nonce) != 8:
        raise ValueError("Salsa20 nonce must be 8 bytes long")
    if not 0 <= counter < (1 << 64):
        raise ValueError("Salsa20 block counter out of range")
    inp = _salsa20_input(key, nonce + struct.pack("<Q", counter))
    out = _salsa20_rounds(inp)
    return struct.pack("<16I", *[(a + b) & _M32 for a, b in zip(inp, out)])


def _stream_xor(block_fn, data, offset_bytes, max_blocks):
    data = bytes(data)
    if offset_bytes < 0:
        raise ValueError("negative offset")
    n = len(data)
    if n == 0:
        return b""
    first = offset_bytes // 64
    skip = offset_bytes % 64
    nblocks = (skip + n + 63) // 64
    if first + nblocks > max_blocks:
        raise OverflowError("keystream exhausted (block counter would overflow)")
    ks = b"".join(block_fn(first + i) for i in range(nblocks))
    return _xor_bytes(data, ks[skip:skip + n])


def salsa20_xor(key, nonce, data, offset_bytes=0):
    """XOR `data` with the Salsa20 keystream starting at byte `offset_bytes`."""
    nonce = bytes(nonce)
    if len(nonce) != 8:
        raise ValueError("Salsa20 nonce must be 8 bytes long")
    return _stream_xor(lambda c: salsa20_block(key, nonce, c), data, offset_bytes, 1 << 64)


# ===========================================================================
# ChaCha20 / HChaCha20 / XChaCha20
# ===========================================================================

def _chacha_rounds(x):
    x = list(x)

    def qr(a, b, c, d):
        xa = x[a]; xb = x[b]; xc = x[c]; xd = x[d]
        xa = (xa + xb) & _M32; xd ^= xa; xd = ((xd << 16) | (xd >> 16)) & _M32
        xc = (xc + xd) & _M32; xb ^= xc; xb = ((xb << 12) | (xb >> 20)) & _M32
        xa = (xa + xb) & _M32; xd ^= xa; xd = ((xd << 8) | (xd >> 24)) & _M32
        xc = (xc + xd) & _M32; xb ^= xc; xb = ((xb << 7) | (xb >> 25)) & _M32
        x[a] = xa; x[b] = xb; x[c] = xc; x[d] = xd

    for _ in range(10):
        qr(0, 4, 8, 12)
        qr(1, 5, 9, 13)
        qr(2, 6, 10, 14)
        qr(3, 7, 11, 15)
        qr(0, 5, 10, 15)
        qr(1, 6, 11, 12)
        qr(2, 7, 8, 13)
        qr(3, 4, 9, 14)
    return x


def chacha20_block(key, counter, nonce):
    """One 64-byte ChaCha20 block.

    nonce of 12 bytes: RFC 8439 layout, words 12..15 = counter32, n0, n1, n2
                       (0 <= counter < 2**32).
    nonce of  8 bytes: original Bernstein layout, words 12..15 =
                       counter_lo, counter_hi, n0, n1 (0 <= counter < 2**64)."""
    key = bytes(key)
    nonce = bytes(nonce)
    if len(key) != 32:
        raise ValueError("ChaCha20 key must be 32 bytes long")
    k = struct.unpack("<8I", key)
    if len(nonce) == 12:
        if not 0 <= counter < (1 << 32):
            raise ValueError("ChaCha20 (96-bit nonce) block counter out of range")
        tail = (counter,) + struct.unpack("<3I", nonce)
    elif len(nonce) == 8:
        if not 0 <= counter < (1 << 64):
            raise ValueError("ChaCha20 (64-bit nonce) block counter out of range")
        tail = (counter & _M32, counter >> 32) + struct.unpack("<2I", nonce)
    else:
        raise ValueError("chacha20_block: nonce must be 8 or 12 bytes long")
    inp = list(_SIGMA) + list(k) + list(tail)
    out = _chacha_rounds(inp)
    return struct.pack("<16I", *[(a + b) & _M32 for a, b in zip(inp, out)])


def hchacha20(key, nonce16):
    """HChaCha20 (draft-irtf-cfrg-xchacha sec 2.2): 32-byte subkey."""
    key = bytes(key)
    nonce16 = bytes(nonce16)
    if len(key) != 32:
        raise ValueError("HChaCha20 key must be 32 bytes long")
    if len(nonce16) != 16:
        raise ValueError("HChaCha20 nonce must be 16 bytes long")
    inp = list(_SIGMA) + list(struct.unpack("<8I", key)) + list(struct.unpack("<4I", nonce16))
    z = _chacha_rounds(inp)
    return struct.pack("<8I", *(z[0:4] + z[12:16]))


def chacha20_params(key, nonce):
    """Map (key, nonce of 8/12/24 bytes) to the effective (key, nonce of 8/12
    bytes, max number of blocks) of the underlying ChaCha20 instance."""
    key = bytes(key)
    nonce = bytes(nonce)
    if len(key) != 32:
        raise ValueError("ChaCha20 key must be 32 bytes long")
    if len(nonce) == 8:
        return key, nonce, 1 << 64
    if len(nonce) == 12:
        return key, nonce, 1 << 32
    if len(nonce) == 24:
        return hchacha20(key, nonce[:16]), b"\x00" * 4 + nonce[16:], 1 << 32
    raise ValueError("ChaCha20 nonce must be 8, 12 or 24 bytes long")


def chacha20_xor(key, nonce, data, offset_bytes=0):
    """XOR `data` with the (X)ChaCha20 keystream starting at byte offset
    `offset_bytes` (block counter starts at 0 for offset 0).  Raises
    OverflowError when the keystream (2**32 blocks for 12/24-byte nonces,
    2**64 blocks for 8-byte nonces) would be exhausted."""
    k, n, maxb = chacha20_params(key, nonce)
    return _stream_xor(lambda c: chacha20_block(k, c, n), data, offset_bytes, maxb)


# ===========================================================================
# Self test with published known-answer vectors
# ===========================================================================

def _h(s):
    return bytes.fromhex(s.replace(" ", "").replace("\n", ""))


def self_test():
    # ---- AES: FIPS 197 Appendix B and C.1-C.3 -----------------------------
    assert _AES_SBOX[0x00] == 0x63 and _AES_SBOX[0x53] == 0xED and _AES_SBOX[0xFF] == 0x16
    aes_kats = [
        ("2b7e151628aed2a6abf7158809cf4f3c", "3243f6a8885a308d313198a2e0370734",
         "3925841d02dc09fbdc118597196a0b32"),
        ("000102030405060708090a0b0c0d0e0f", "00112233445566778899aabbccddeeff",
         "69c4e0d86a7b0430d8cdb78070b4c55a"),
        ("000102030405060708090a0b0c0d0e0f1011121314151617", "00112233445566778899aabbccddeeff",
         "dda97ca4864cdfe06eaf70a0ec0d7191"),
        ("000102030405060708090a0b0c0d0e0f101112131415161718191a1b1c1d1e1f",
         "00112233445566778899aabbccddeeff", "8ea2b7ca516745bfeafc49904b496089"),
        # SP 800-38A F.1.1 / F.1.3 / F.1.5 block #1
        ("2b7e151628aed2a6abf7158809cf4f3c", "6bc1bee22e409f96e93d7e117393172a",
         "3ad77bb40d7a3660a89ecaf32466ef97"),
        ("8e73b0f7da0e6452c810f32b809079e562f8ead2522c6b7b", "6bc1bee22e409f96e93d7e117393172a",
         "bd334f1d6e45f25ff712a214571fa5cc"),
        ("603deb1015ca71be2b73aef0857d77811f352c073b6108d72d9810a30914dff4",
         "6bc1bee22e409f96e93d7e117393172a", "f3eed1bdb5d2a03c064b5a7e3db181f8"),
    ]
    for k, p, c in aes_kats:
        a = AES(_h(k))
        assert a.encrypt_block(_h(p)) == _h(c), "AES KAT enc"
        assert a.decrypt_block(_h(c)) == _h(p), "AES KAT dec"
        assert a._encrypt_block_slow(_h(p)) == _h(c), "AES KAT slow"
    # fast vs literal implementation on a chained sequence
    for klen in (16, 24, 32):
        a = AES(bytes(range(7, 7 + klen)))
        blk = bytes(16)
        for _ in range(8):
            nxt = a.encrypt_block(blk)
            assert nxt == a._encrypt_block_slow(blk)
            assert a.decrypt_block(nxt) == blk
            blk = nxt

    # ---- DES: FIPS/SP 800-17 vectors ---------------------------------------
    assert sorted(_DES_FP) == list(range(1, 65)) and _DES_FP[:8] == (40, 8, 48, 16, 56, 24, 64, 32)
    des_kats = [
        # SP 800-17 Appendix A sample
        ("10316e028c8f3b4a", "0000000000000000", "82dcbafbdeab6602"),
        # classic worked examples
        ("133457799bbcdff1", "0123456789abcdef", "85e813540f0ab405"),
        ("0123456789abcdef", "4e6f772069732074", "3fa40e8a984d4815"),
        # SP 800-17 Table B.1 (variable plaintext)
        ("0101010101010101", "8000000000000000", "95f8a5e5dd31d900"),
        ("0101010101010101", "4000000000000000", "dd7f121ca5015619"),
        ("0101010101010101", "0000000000000001", "166b40b44aba4bd6"),
        # SP 800-17 Table B.2 (variable key)
        ("8001010101010101", "0000000000000000", "95a8d72813daa94d"),
        ("0101010101010102", "0000000000000000", "869efd7f9f265a09"),
    ]
    # SP 800-17 Table B.5 / NBS substitution table known answer test (19 vectors,
    # exercises every S-box entry)
    subtab = """
        7ca110454a1a6e57 01a1d6d039776742 690f5b0d9a26939b
        0131d9619dc1376e 5cd54ca83def57da 7a389d10354bd271
        07a1133e4a0b2686 0248d43806f67172 868ebb51cab4599a
        3849674c2602319e 51454b582ddf440a 7178876e01f19b2a
        04b915ba43feb5b6 42fd443059577fa2 af37fb421f8c4095
        0113b970fd34f2ce 059b5e0851cf143a 86a560f10ec6d85b
        0170f175468fb5e6 0756d8e0774761d2 0cd3da020021dc09
        43297fad38e373fe 762514b829bf486a ea676b2cb7db2b7a
        07a7137045da2a16 3bdd119049372802 dfd64a815caf1a0f
        04689104c2fd3b2f 26955f6835af609a 5c513c9c4886c088
        37d06bb516cb7546 164d5e404f275232 0a2aeeae3ff4ab77
        1f08260d1ac2465e 6b056e18759f5cca ef1bf03e5dfa575a
        584023641aba6176 004bd6ef09176062 88bf0db6d70dee56
        025816164629b007 480d39006ee762f2 a1f9915541020b56
        49793ebc79b3258f 437540c8698f3cfa 6fbf1cafcffd0556
        4fb05e1515ab73a7 072d43a077075292 2f22e49bab7ca1ac
        49e95d6d4ca229bf 02fe55778117f12a 5a6b612cc26cce4a
        018310dc409b26d6 1d9d5c5018f728c2 5f4c038ed12b2e41
        1c587f1c13924fef 305532286d6f295a 63fac0d034d9f793
    """.split()
    des_kats += [tuple(subtab[i:i + 3]) for i in range(0, len(subtab), 3)]
    for k, p, c in des_kats:
        d = DES(_h(k))
        assert d.encrypt_block(_h(p)) == _h(c), "DES KAT enc " + k
        assert d.decrypt_block(_h(c)) == _h(p), "DES KAT dec " + k
        assert d._encrypt_block_slow(_h(p)) == _h(c), "DES KAT slow " + k
        assert d._decrypt_block_slow(_h(c)) == _h(p)
    # parity bits ignored
    assert DES(_h("0000000000000000")).encrypt_block(bytes(8)) == \
        DES(_h("0101010101010101")).encrypt_block(bytes(8))

    # ---- Triple DES --------------------------------------------------------
    # SP 800-67 Appendix B.1 (3-key), "The quick brown fox jump"
    t = DES3(_h("0123456789abcdef23456789abcdef01456789abcdef0123"))
    pt = _h("54686520717566636b2062726f776e20666f78206a756d70")
    ct = _h("a826fd8ce53b855fcce21c8112256fe668d5c05dd9b6b900")
    for i in range(0, 24, 8):
        assert t.encrypt_block(pt[i:i + 8]) == ct[i:i + 8], "3DES SP800-67"
        assert t.decrypt_block(ct[i:i + 8]) == pt[i:i + 8]
    # NIST CAVS TECBMMT3 count 0
    t = DES3(_h("a2b5bc67da13dc92" "cd9d344aa238544a" "0e1fa79ef76810cd"))
    assert t.encrypt_block(_h("329d86bdf1bc5af4")) == _h("d946c2756d78633f"), "3DES CAVS"
    # two-key variant == three-key with K3 = K1
    k2 = _h("9b397ebf81b1181e282f4bb8adbadc6b")
    assert DES3(k2).encrypt_block(_h("21e81b7ade88a259")) == _h("5c577d4d9b20c0f8"), "2-key 3DES"
    assert DES3(k2 + k2[:8]).encrypt_block(_h("21e81b7ade88a259")) == _h("5c577d4d9b20c0f8")
    # K1=K2=K3 degenerates to DES
    assert DES3(_h("0123456789abcdef") * 3).encrypt_block(_h("4e6f772069732074")) == _h("3fa40e8a984d4815")

    # ---- Blowfish: pi digits and Schneier's vectors --------------------------
    assert _BF_P_INIT[0] == 0x243F6A88 and _BF_P_INIT[1] == 0x85A308D3 and _BF_P_INIT[17] == 0x8979FB1B
    assert _BF_S_INIT[0][0] == 0xD1310BA6 and _BF_S_INIT[3][255] == 0x3AC372E6
    bf_kats = [
        ("0000000000000000", "0000000000000000", "4ef997456198dd78"),
        ("ffffffffffffffff", "ffffffffffffffff", "51866fd5b85ecb8a"),
        ("3000000000000000", "1000000000000001", "7d856f9a613063f2"),
        ("1111111111111111", "1111111111111111", "2466dd878b963c9d"),
        ("0123456789abcdef", "1111111111111111", "61f9c3802281b096"),
        ("fedcba9876543210", "0123456789abcdef", "0aceab0fc6a0a28d"),
        ("7ca110454a1a6e57", "01a1d6d039776742", "59c68245eb05282b"),
        ("0131d9619dc1376e", "5cd54ca83def57da", "b1b8cc0b250f09a0"),
        ("fedcba9876543210", "ffffffffffffffff", "6b5c5a9c5d9e0a5a"),
        # variable key length set (key bytes f0e1d2c3b4a5968778695a4b3c2d1e0f0011223344556677)
        ("f0e1d2c3", "fedcba9876543210", "be1e639408640f05"),
        ("f0e1d2c3b4", "fedcba9876543210", "b39e44481bdb1e6e"),
        ("f0e1d2c3b4a59687", "fedcba9876543210", "e87a244e2cc85e82"),
        ("f0e1d2c3b4a5968778695a", "fedcba9876543210", "3a833c9affc537f6"),
        ("f0e1d2c3b4a5968778695a4b3c2d1e0f", "fedcba9876543210", "93142887ee3be15c"),
        ("f0e1d2c3b4a5968778695a4b3c2d1e0f0011223344556677", "fedcba9876543210", "05044b62fa52d080"),
    ]
    for k, p, c in bf_kats:
        bfc = Blowfish(_h(k))
        assert bfc.encrypt_block(_h(p)) == _h(c), "Blowfish KAT " + k
        assert bfc.decrypt_block(_h(c)) == _h(p)
    # EksBlowfish sanity: cost-independent structural identity --
    # with an all-zero salt ExpandKey(state, 0, key) is the plain schedule.
    # (bcrypt known answers are checked by the bcrypt model built on top.)
    e0 = EksBlowfish(b"abcd", bytes(16), 0)
    assert e0.decrypt_block(e0.encrypt_block(b"OrpheanB")) == b"OrpheanB"
    # bcrypt known answer (Openwall crypt_blowfish / OpenBSD regression vector):
    #   bcrypt("U*U", "$2a$05$CCCCCCCCCCCCCCCCCCCCC.") ends in E5YPO9kmyuRGyh0XouQYb4YMJKvyOeW
    b64 = "./ABCDEFGHIJKLMNOPQRSTUVWXYZabcdefghijklmnopqrstuvwxyz0123456789"

    def b64dec(txt, nbytes):
        v = 0
        for ch in txt:
            v = (v << 6) | b64.index(ch)
        extra = 6 * len(txt) - 8 * nbytes
        return (v >> extra).to_bytes(nbytes, "big")

    salt = b64dec("CCCCCCCCCCCCCCCCCCCCC.", 16)
    eks = EksBlowfish(b"U*U\x00", salt, 5)
    ctext = b"OrpheanBeholderScryDoubt"
    for _ in range(64):
        ctext = b"".join(eks.encrypt_block(ctext[i:i + 8]) for i in (0, 8, 16))
    assert ctext[:23] == b64dec("E5YPO9kmyuRGyh0XouQYb4YMJKvyOeW", 23), "EksBlowfish / bcrypt KAT"

    # ---- CAST-128: RFC 2144 Appendix B.1 -----------------------------------
    for k, c in (("0123456712345678234567893456789a", "238b4fe5847e44b2"),
                 ("01234567123456782345", "eb6a711a2c02271b"),
                 ("0123456712", "7ac816d16e9b302e")):
        cc = CAST128(_h(k))
        assert cc.encrypt_block(_h("0123456789abcdef")) == _h(c), "CAST128 KAT " + k
        assert cc.decrypt_block(_h(c)) == _h("0123456789abcdef")

    # ---- RC2: RFC 2268 section 5 ----------------------------------------------
    rc2_kats = [
        ("0000000000000000", 63, "0000000000000000", "ebb773f993278eff"),
        ("ffffffffffffffff", 64, "ffffffffffffffff", "278b27e42e2f0d49"),
        ("3000000000000000", 64, "1000000000000001", "30649edf9be7d2c2"),
        ("88", 64, "0000000000000000", "61a8a244adacccf0"),
        ("88bca90e90875a", 64, "0000000000000000", "6ccf4308974c267f"),
        ("88bca90e90875a7f0f79c384627bafb2", 64, "0000000000000000", "1a807d272bbe5db1"),
        ("88bca90e90875a7f0f79c384627bafb2", 128, "0000000000000000", "2269552ab0f85ca6"),
        ("88bca90e90875a7f0f79c384627bafb216f80a6f85920584c42fceb0be255daf1e", 129,
         "0000000000000000", "5b78d3a43dfff1f1"),
    ]
    for k, t1, p, c in rc2_kats:
        r = RC2(_h(k), t1)
        assert r.encrypt_block(_h(p)) == _h(c), "RC2 KAT " + k
        assert r.decrypt_block(_h(c)) == _h(p)

    # ---- RC4: RFC 6229 (40-bit key 0102030405) + classic vectors --------------
    ks = RC4(_h("0102030405")).keystream(4112)
    assert ks[0:16] == _h("b2396305f03dc027ccc3524a0a1118a8")
    assert ks[16:32] == _h("6982944f18fc82d589c403a47a0d0919")
    assert ks[240:256] == _h("28cb1132c96ce286421dcaadb8b69eae")
    assert ks[1024:1040] == _h("30abbcc7c20b01609f23ee2d5f6bb7df")
    assert ks[4096:4112] == _h("ff25b58995996707e51fbdf08b34d875")
    assert RC4(_h("0102030405"), drop=240).keystream(16) == ks[240:256]
    assert RC4(b"Key").crypt(b"Plaintext") == _h("bbf316e8d940af0ad3")
    assert RC4(b"Wiki").crypt(b"pedia") == _h("1021bf0420")
    assert RC4(b"Secret").crypt(b"Attack at dawn") == _h("45a01f645fc35b383552544b9bf5")
    r4 = RC4(b"Secret")
    assert r4.crypt(b"Attack") + r4.crypt(b" at dawn") == _h("45a01f645fc35b383552544b9bf5")

    # ---- Salsa20: ECRYPT verified test vectors ---------------------------------
    # 128-bit key, set 1 vector 0
    k = _h("80000000000000000000000000000000")
    s = salsa20_xor(k, bytes(8), bytes(512))
    assert s[:64] == _h("4dfa5e481da23ea09a31022050859936da52fcee218005164f267cb65f5cfd7f"
                        "2b4f97e0ff16924a52df269515110a07f9e460bc65ef95da58f740b7d1dbb0aa")
    assert s[448:] == _h("b375703739daced4dd4059fd71c3c47fc2f9939670fad4a46066adcc6a564578"
                         "3308b90ffb72be04a6b147cbe38cc0c3b9267c296a92a7c69873f9f263be9703")
    assert salsa20_xor(k, bytes(8), bytes(70), offset_bytes=440) == s[440:510]
    assert salsa20_block(k, bytes(8), 7) == s[448:]
    # 256-bit key, set 1 vector 0
    k = _h("8000000000000000000000000000000000000000000000000000000000000000")
    s = salsa20_xor(k, bytes(8), bytes(512))
    assert s[:64] == _h("e3be8fdd8beca2e3ea8ef9475b29a6e7003951e1097a5c38d23b7a5fad9f6844"
                        "b22c97559e2723c7cbbd3fe4fc8d9a0744652a83e72a9c461876af4d7ef1a117")
    assert s[448:] == _h("696afcfd0cddcc83c7e77f11a649d79acdc3354e9635ff137e929933a0bd6f53"
                         "77efa105a3a4266b7c0d089d08f1e855cc32b15b93784a36e56a76cc64bc8477")

    # ---- ChaCha20 ----------------------------------------------------------
    k = bytes(range(32))
    # RFC 8439 sec 2.3.2
    assert chacha20_block(k, 1, _h("000000090000004a00000000")) == _h(
        "10f1e7e4d13b5915500fdd1fa32071c4c7d1f4c733c068030422aa9ac3d46c4e"
        "d2826446079faa0914c2d705d98b02a2b5129cd1de164eb9cbd083e8a2503c4e")
    # RFC 8439 sec 2.4.2
    sunscreen = (b"Ladies and Gentlemen of the class of '99: If I could offer you only one tip "
                 b"for the future, sunscreen would be it.")
    assert chacha20_xor(k, _h("000000000000004a00000000"), sunscreen, offset_bytes=64) == _h(
        "6e2e359a2568f98041ba0728dd0d6981e97e7aec1d4360c20a27afccfd9fae0b"
        "f91b65c5524733ab8f593dabcd62b3571639d624e65152ab8f530c359f0861d8"
        "07ca0dbf500d6a6156a38e088a22b65e52bc514d16ccf806818ce91ab7793736"
        "5af90bbf74a35be6b40b8eedf2785e42874d")
    # original 64-bit nonce layout (draft-agl-tls-chacha20poly1305-04 sec 7)
    assert chacha20_xor(bytes(32), bytes(8), bytes(64)) == _h(
        "76b8e0ada0f13d90405d6ae55386bd28bdd219b8a08ded1aa836efcc8b770dc7"
        "da41597c5157488d7724e03fb8d84a376a43b8f41518a11cc387b669b2ee6586")
    assert chacha20_xor(bytes(32), _h("0000000000000001"), bytes(60)) == _h(
        "de9cba7bf3d69ef5e786dc63973f653a0b49e015adbff7134fcb7df137821031"
        "e85a050278a7084527214f73efc7fa5b5277062eb7a0433e445f41e3")
    assert chacha20_xor(bytes(32), _h("0100000000000000"), bytes(64)) == _h(
        "ef3fdfd6c61578fbf5cf35bd3dd33b8009631634d21e42ac33960bd138e50d32"
        "111e4caf237ee53ca8ad6426194a88545ddc497a0b466e7d6bbdb0041b2f586b")
    assert chacha20_xor(k, _h("0001020304050607"), bytes(256)) == _h(
        "f798a189f195e66982105ffb640bb7757f579da31602fc93ec01ac56"
        "f85ac3c134a4547b733b46413042c9440049176905d3be59ea1c53f1"
        "5916155c2be8241a38008b9a26bc35941e2444177c8ade6689de9526"
        "4986d95889fb60e84629c9bd9a5acb1cc118be563eb9b3a4a472f82e"
        "09a7e778492b562ef7130e88dfe031c79db9d4f7c7a899151b9a4750"
        "32b63fc385245fe054e3dd5a97a5f576fe064025d3ce042c566ab2c5"
        "07b138db853e3d6959660996546cc9c4a6eafdc777c040d70eaf46f7"
        "6dad3979e5c5360c3317166a1c894c94a371876a94df7628fe4eaaf2"
        "ccb27d5aaae0ad7ad0f9d4b6ad3b54098746d4524d38407a6deb3ab7"
        "8fab78c9")
    # draft-nir-cfrg-chacha20-poly1305-04 A.1 TV#4 (seek to block 2)
    assert chacha20_xor(b"\x00\xff" + bytes(30), bytes(8), bytes(64), offset_bytes=128) == _h(
        "72d54dfbf12ec44b362692df94137f328fea8da73990265ec1bbbea1ae9af0ca"
        "13b25aa26cb4a648cb9b9d1be65b2c0924a66c54d545ec1b7374f4872e99f096")
    # the two layouts coincide when the upper counter word / first nonce word is zero
    assert chacha20_block(k, 5, b"\x00" * 4 + b"ABCDEFGH") == chacha20_block(k, 5, b"ABCDEFGH")
    assert chacha20_block(k, 5 + (7 << 32), b"ABCDEFGH") == \
        chacha20_block(k, 5, struct.pack("<I", 7) + b"ABCDEFGH")
    # HChaCha20: draft-irtf-cfrg-xchacha sec 2.2.1
    assert hchacha20(k, _h("000000090000004a0000000031415927")) == _h(
        "82413b4227b27bfed30e42508a877d73a0f9e4d58a74a853c12ec41326d3ecdc")
    # XChaCha20: draft-irtf-cfrg-xchacha A.3.2 (first and last 32 bytes), counter = 1
    xk = _h("808182838485868788898a8b8c8d8e8f909192939495969798999a9b9c9d9e9f")
    xn = _h("404142434445464748494a4b4c4d4e4f5051525354555658")
    xpt = (b"The dhole (pronounced \"dole\") is also known as the Asiatic wild dog, red dog, and "
           b"whistling dog. It is about the size of a German shepherd but looks more like a "
           b"long-legged fox. This highly elusive and skilled jumper is classified with wolves, "
           b"coyotes, jackals, and foxes in the taxonomic family Canidae.")
    xct = chacha20_xor(xk, xn, xpt, offset_bytes=64)
    assert len(xpt) == 304
    assert xct[:32] == _h("7d0a2e6b7f7c65a236542630294e063b7ab9b555a5d5149aa21e4ae1e4fbce87")
    assert xct[-16:] == _h("8a9c71f70b5b5907a66f7ea49aadc409")
    return True


if __name__ == "__main__":
    import time
    t0 = time.time()
    self_test()
    print("ciphers.self_test OK in %.3f s" % (time.time() - t0))
