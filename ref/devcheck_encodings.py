"""Development-time cross check of ref.der / ref.keyfiles / ref.padding against
the library (pycryptodome).  This is the ONLY file of the three models that
imports Crypto.  Run:

    PYTHONPATH=/verif /venv/bin/python /verif/ref/devcheck_encodings.py [-v] [--quick]

Sections
  1. library export_key() in every format / protection combination
     -> model parser recovers the same numbers; every DER layer is strict DER
        and re-encodes to itself
  2. blobs built by the model encoders -> library import_key() gives the same
     numbers
  3. DER primitives against Crypto.Util.asn1 (both directions) + strictness
  4. padding and RFC 1751 against Crypto.Util.Padding / Crypto.Util.RFC1751
  5. probes: inputs where specification and library are expected to differ

The script ends with "MISMATCHES: 0" when everything agrees; documented
library deviations are listed separately (they are findings, not model bugs).
"""

import base64
import itertools
import os
import random
import sys
import time
import types

sys.path.insert(0, os.path.dirname(os.path.dirname(os.path.abspath(__file__))))

VERBOSE = '-v' in sys.argv
QUICK = '--quick' in sys.argv


def install_cipher_adapter():
    """If ref.ciphers / ref.modes do not exist yet, wrap the library's ECB
    objects into the same duck type (development only)."""
    try:
        from ref import ciphers, modes      # noqa: F401
        return False
    except ImportError:
        pass
    from Crypto.Cipher import AES as _AES, DES as _DES, DES3 as _DES3, \
        ARC2 as _ARC2

    def make(mod, bs, **kw):
        class C(object):
            block_size = bs

            def __init__(self, key, *extra):
                self.key = bytes(key)
                args = dict(kw)
                if extra and extra[0] is not None:
                    args['effective_keylen'] = extra[0]
                self._e = mod.new(self.key, mod.MODE_ECB, **args)

            def encrypt_block(self, b):
                return self._e.encrypt(bytes(b))

            def decrypt_block(self, b):
                return self._e.decrypt(bytes(b))
        return C

    cm = types.ModuleType('ref.ciphers')
    cm.AES = make(_AES, 16)
    cm.DES = make(_DES, 8)
    cm.DES3 = make(_DES3, 8)
    cm.RC2 = make(_ARC2, 8)
    mm = types.ModuleType('ref.modes')

    def xor(a, b):
        return bytes(x ^ y for x, y in zip(a, b))

    def cbc_encrypt(c, iv, pt):
        out, prev = [], iv
        for i in range(0, len(pt), c.block_size):
            prev = c.encrypt_block(xor(pt[i:i + c.block_size], prev))
            out.append(prev)
        return b''.join(out)

    def cbc_decrypt(c, iv, ct):
        out, prev = [], iv
        for i in range(0, len(ct), c.block_size):
            blk = ct[i:i + c.block_size]
            out.append(xor(c.decrypt_block(blk), prev))
            prev = blk
        return b''.join(out)

    def gcm_seal(c, nonce, aad, pt, mac_len=16):
        g = _AES.new(c.key, _AES.MODE_GCM, nonce=nonce, mac_len=mac_len)
        g.update(aad)
        return g.encrypt_and_digest(pt)

    def gcm_open(c, nonce, aad, ct, mac_len=16):
        g = _AES.new(c.key, _AES.MODE_GCM, nonce=nonce, mac_len=mac_len)
        g.update(aad)
        pt = g.decrypt(ct)
        return pt, g.digest()
    mm.cbc_encrypt, mm.cbc_decrypt = cbc_encrypt, cbc_decrypt
    mm.gcm_seal, mm.gcm_open = gcm_seal, gcm_open
    import ref
    sys.modules['ref.ciphers'] = ref.ciphers = cm
    sys.modules['ref.modes'] = ref.modes = mm
    return True


ADAPTER = install_cipher_adapter()

from ref import der, keyfiles as kf, padding as rpad      # noqa: E402

from Crypto.PublicKey import RSA, DSA, ECC                  # noqa: E402
from Crypto.Util import asn1, Padding, RFC1751              # noqa: E402
from Crypto.IO import PKCS8, PEM                            # noqa: E402

RND = random.Random(20260925)

COUNTS = {}
MISMATCHES = []
DEVIATIONS = []     # analysed library deviations: (id, text)


def count(section, n=1):
    COUNTS[section] = COUNTS.get(section, 0) + n


def mismatch(section, what):
    MISMATCHES.append((section, what))
    print("  MISMATCH [%s] %s" % (section, what))


def deviation(ident, text):
    if ident not in [d[0] for d in DEVIATIONS]:
        DEVIATIONS.append((ident, text))


def log(msg):
    if VERBOSE:
        print(msg)


# ---------------------------------------------------------------------------
# keys
# ---------------------------------------------------------------------------

DSA_DOMAINS = {
    1024: (0x8b618d49349917bc695184e0e2e486219851e70f1791acf256a6fbb7ae4c52d744446dfb09172433d70ed78895bcee25f350acef362bfb157c5884bdb6a391bc8779f960b5f4a3e1c07a2d324e7a01d1ec9e0812dd55b37a4f5bc19ca03c9e64fc8ce0d19564dbad5aacd77502f25882f3ebd151378420eaed7bcc8ac1238f19,
           0x8040f24e84674ca08a91389ab487ccaab3878fb3,
           0x6f57ea0ccb5abd805749f35e7584c5e7427552e32a802551236985745d78c85ec28208cc2ad8ec019ea5b4f7b98b711aff29da87ce904997152e9c8d3a35b6fcc14d3e874f43143649cd6260390cd9c40074cbc8ee0eb5b25db7087fc0f2343b37c9210a71974bab31c9125fecc634d746636af72ab3189a2809b9452fe47d88),
    2048: (0xb99ac760d9fd5ec8fc8aec630f2b2d5bcc35f31a0349b8b208ffcbb42811eaac9d0c889708f727289ca5c192343a413e5836bbba647a2d83c6c865d3920ace87f663e287ec030e584cc5f8108f5778da6dcbaa18e2758c4c09b256d26129cc3896b0ae0d3e6586ec2bc2551127d4b23a34364b0bf34ac0ce2d8f5c7a9c5d42b0b22afe77337595cdd330d458e0d612033a575c4ac5fcbc23b84d0cde73b821f2e1b29501c4c7b141e331b37b21470fd72e073c9d8a7e75418e750316b9c23085719b3c1d0c3bdf6af86205c17c96db9bfbb4165250ef86c73f302757f821f7b776adf1623ca79f5b214fa95612b0edbdef021dbbaa4c3426b08ce4ba65ecaced,
           0xe25fe0bfd7be10175f06fa2a73ae3256716e3ddcbe6001a736b4709f,
           0x47ae110e4721b40a02187a6775ed40f0ef12d73b9c5e9313fede0b20847f3722a41c52c12b54011c3fc905722272ddd7638ca4e3ac09457871bfdf9da3efbc58cbd006940b6c30f624566c633165b92283f3eea0eadf34bee50b4fd0c1d9f1e65fcb4ffa5a11fd83baf2435c30e66d0ca73ea7984702c700836de68b246b1ce77097606e59ddf66986401ecf69c719792a55c67784742907a0cf0c60a47844bbd8351fe6558ff7521dbdd2520a8136fb757968d81d0f3582f03d7d76a6f594b147b5c495f4775f6cfdcae2a7d3d17631f29344acacec562f564c45ff59af948bbfaa1b722f9b3ccc1fea4993348e7dddf87e095c1cc165971150d03b77b7c1ee),
}

ECC_CURVES = ['NIST P-192', 'NIST P-224', 'NIST P-256', 'NIST P-384',
              'NIST P-521', 'Ed25519', 'Ed448', 'Curve25519', 'Curve448']

# every protection string Crypto.IO._PBES.PBES2.encrypt understands:
#   'PBKDF2WithHMAC-' + hash + 'And' + cipher   and   'scryptAnd' + cipher
HASHES = ['SHA1', 'SHA224', 'SHA256', 'SHA384', 'SHA512', 'SHA512-224',
          'SHA512-256', 'SHA3-224', 'SHA3-256', 'SHA3-384', 'SHA3-512']
CIPHERS = ['DES-EDE3-CBC', 'AES128-CBC', 'AES192-CBC', 'AES256-CBC',
           'AES128-GCM', 'AES192-GCM', 'AES256-GCM']
PROTECTIONS = ['PBKDF2WithHMAC-%s And%s'.replace(' ', '') % (h, c)
               for h in HASHES for c in CIPHERS] + \
              ['scryptAnd' + c for c in CIPHERS]
HASH_TO_HASHLIB = dict((h, h.lower().replace('-', '_').replace('sha3_', 'sha3_')
                        ) for h in HASHES)
CIPHER_TO_MODEL = dict((c, c.lower() if c != 'DES-EDE3-CBC' else 'des-ede3-cbc')
                       for c in CIPHERS)
PW = b'correct horse'


def rsa_numbers(k):
    d = {'type': 'RSA', 'private': k.has_private(), 'n': int(k.n),
         'e': int(k.e)}
    if k.has_private():
        d.update({'d': int(k.d), 'p': int(k.p), 'q': int(k.q),
                  'dp': int(k.d) % (int(k.p) - 1),
                  'dq': int(k.d) % (int(k.q) - 1),
                  'qinv': pow(int(k.q), -1, int(k.p))})
    return d


def dsa_numbers(k):
    d = {'type': 'DSA', 'private': k.has_private(), 'p': int(k.p),
         'q': int(k.q), 'g': int(k.g), 'y': int(k.y)}
    if k.has_private():
        d['x'] = int(k.x)
    return d


def ecc_numbers(k, compressed=None):
    c = kf.curve_by_name(k.curve)
    d = {'type': 'ECC', 'curve': k.curve, 'private': k.has_private(),
         'x': int(k.pointQ.x)}
    if c.kind != 'montgomery':
        d['y'] = int(k.pointQ.y)
    if k.has_private():
        if c.kind == 'weierstrass':
            d['d'] = int(k.d)
        else:
            d['seed'] = bytes(k.seed)
    d['compressed'] = compressed if c.kind == 'weierstrass' else None
    return d


def same_numbers(got, want, ignore=()):
    g = kf.strip_meta(got)
    w = dict(want)
    for k in ignore:
        g.pop(k, None)
        w.pop(k, None)
    return g == w


# ---------------------------------------------------------------------------
# DER layers
# ---------------------------------------------------------------------------

def check_der_layer(section, label, blob):
    probs = der.strict_problems(blob)
    if probs:
        mismatch(section, "%s: not strict DER: %s" % (label, probs))
        return None
    node = der.parse(blob)
    if der.reencode(node) != blob:
        mismatch(section, "%s: reencode differs" % label)
    count('der layers checked')
    return node


def der_layers(section, label, blob, passphrase):
    """Check blob and every nested DER structure (decrypted PKCS#8 payload,
    privateKey OCTET STRING content, subjectPublicKey BIT STRING content)."""
    top = check_der_layer(section, label, blob)
    if top is None:
        return
    kind = kf._looks_like(top)
    if kind in ('pkcs8', 'pkcs8-encrypted'):
        r = kf.pkcs8_unwrap_ex(blob, passphrase)
        if r['encrypted']:
            check_der_layer(section, label + '/decrypted', r['inner_der'])
        inner = r['private_key']
        node = check_der_layer(section, label + '/privateKey', inner)
        if node is not None and node.is_universal(der.T_SEQUENCE) and \
                kf._looks_like(node) == 'ec-private':
            pass
    elif kind == 'spki':
        bits, _ = der.dec_bitstring(top.children[1])
        oid = der.dec_oid(top.children[0].children[0])
        if oid in (kf.OID_RSA, kf.OID_DSA):
            check_der_layer(section, label + '/subjectPublicKey', bits)


# ---------------------------------------------------------------------------
# 1. library exports -> model parser
# ---------------------------------------------------------------------------

EXPORT_COMBOS = []      # (key kind, kwargs description) for the final report


def note_combo(kind, desc):
    if (kind, desc) not in EXPORT_COMBOS:
        EXPORT_COMBOS.append((kind, desc))


def try_export(section, kind, key, want, kwargs, passphrase=None,
               expect_error=False, ignore=(), curve=None, check_layers=True,
               expect_note=None):
    desc = ", ".join("%s=%r" % (k, v) for k, v in sorted(kwargs.items())
                     if k not in ('passphrase', 'prot_params', 'randfunc'))
    if 'passphrase' in kwargs:
        desc += ", passphrase"
    if 'prot_params' in kwargs:
        desc += ", prot_params"
    try:
        blob = key.export_key(**kwargs)
    except ValueError as e:
        if expect_error:
            note_combo(kind, desc + "  -> ValueError (documented)")
            count('exports refused by the library as documented')
            return None
        mismatch(section, "%s export_key(%s) raised %r" % (kind, desc, e))
        return None
    if expect_error:
        mismatch(section, "%s export_key(%s) did not raise" % (kind, desc))
        return None
    note_combo(kind, desc)
    count('exports parsed')
    try:
        got = kf.parse_any(blob, passphrase, curve=curve)
    except Exception as e:
        mismatch(section, "%s export_key(%s): model raised %s: %s" %
                 (kind, desc, type(e).__name__, e))
        return blob
    if not same_numbers(got, want, ignore):
        mismatch(section, "%s export_key(%s): numbers differ\n   got  %r\n"
                 "   want %r" % (kind, desc, kf.strip_meta(got), want))
    if expect_note is not None:
        notes = " | ".join(got.get('_notes', []))
        if expect_note not in notes:
            mismatch(section, "%s export_key(%s): expected note %r, got %r" %
                     (kind, desc, expect_note, notes))
    # DER layers
    if check_layers:
        raw = blob if isinstance(blob, bytes) else blob.encode()
        if raw.lstrip().startswith(b'-----BEGIN'):
            dblob = kf.pem_decode(raw, passphrase)[0]
            der_layers(section, "%s(%s)" % (kind, desc), dblob, passphrase)
        elif raw[:1] == b'\x30':
            der_layers(section, "%s(%s)" % (kind, desc), raw, passphrase)
    # wrong passphrase must be refused
    if passphrase is not None and kwargs.get('passphrase') is not None:
        try:
            kf.parse_any(blob, passphrase + b'x', curve=curve)
        except ValueError:
            count('wrong passphrase refused')
        else:
            # CBC + PKCS#7: 1/256 chance of valid padding, then DER fails
            mismatch(section, "%s export_key(%s): wrong passphrase accepted"
                     % (kind, desc))
    return blob


def check_encryption_info(section, blob, passphrase, protection, prot_params):
    """The parameters found in the container are the requested ones."""
    raw = blob if isinstance(blob, bytes) else blob.encode()
    if raw.lstrip().startswith(b'-----BEGIN'):
        raw = kf.pem_decode(raw)[0]
    info = kf.pkcs8_unwrap_ex(raw, passphrase)['encryption']
    if protection.startswith('scrypt'):
        want_kdf, want_prf = 'scrypt', None
        cname = protection[len('scryptAnd'):]
        default_count = 16384
    else:
        h, cname = protection[len('PBKDF2WithHMAC-'):].split('And')
        want_kdf = 'pbkdf2'
        want_prf = h.lower().replace('-', '_')
        default_count = 1000
    pp = prot_params or {}
    ok = (info['kdf'] == want_kdf and info['prf'] == want_prf and
          info['cipher'] == CIPHER_TO_MODEL[cname] and
          info['iterations'] == pp.get('iteration_count', default_count) and
          len(info['salt']) == pp.get('salt_size', 8))
    if want_kdf == 'scrypt':
        ok = ok and info['block_size'] == pp.get('block_size', 8) and \
            info['parallelization'] == pp.get('parallelization', 1)
    if not ok:
        mismatch(section, "encryption parameters for %s %r: found %r" %
                 (protection, prot_params, info))
    count('encryption parameter sets verified')


def small_params(protection):
    if protection.startswith('scrypt'):
        return {'iteration_count': 16, 'block_size': 2, 'parallelization': 2,
                'salt_size': 11}
    return {'iteration_count': 9, 'salt_size': 13}


def section1_rsa():
    sec = '1.RSA'
    sizes = [1024, 1025] if QUICK else [1024, 1025, 2048]
    for bits in sizes:
        key = RSA.generate(bits)
        want = rsa_numbers(key)
        wpub = rsa_numbers(key.public_key())
        kind = 'RSA'
        pub = key.public_key()
        for fmt in ('PEM', 'DER', 'OpenSSH'):
            try_export(sec, kind + '-public', pub, wpub, {'format': fmt})
            # pkcs is ignored for public keys
            try_export(sec, kind + '-public', pub, wpub,
                       {'format': fmt, 'pkcs': 8})
        try_export(sec, kind, key, want, {'format': 'OpenSSH'},
                   ignore=('d', 'p', 'q', 'dp', 'dq', 'qinv', 'private'))
        for fmt in ('PEM', 'DER'):
            for pkcs in (1, 8):
                try_export(sec, kind, key, want,
                           {'format': fmt, 'pkcs': pkcs})
                try_export(sec, kind, key, want,
                           {'format': fmt, 'pkcs': pkcs, 'passphrase': PW},
                           passphrase=PW,
                           expect_error=(fmt == 'DER' and pkcs == 1))
        # protection given without passphrase: see probes (mislabelled PEM)
        protections = PROTECTIONS if bits == 1024 else PROTECTIONS[::9]
        for prot in protections:
            for fmt in ('PEM', 'DER'):
                pp = small_params(prot)
                blob = try_export(sec, kind, key, want,
                                  {'format': fmt, 'pkcs': 8, 'passphrase': PW,
                                   'protection': prot, 'prot_params': pp},
                                  passphrase=PW)
                if blob is not None:
                    check_encryption_info(sec, blob, PW, prot, pp)
        # default parameters (1000 iterations / N=16384)
        for prot in ('PBKDF2WithHMAC-SHA512AndAES256-CBC',
                     'scryptAndAES128-CBC'):
            blob = try_export(sec, kind, key, want,
                              {'format': 'DER', 'pkcs': 8, 'passphrase': PW,
                               'protection': prot}, passphrase=PW)
            if blob is not None:
                check_encryption_info(sec, blob, PW, prot, None)
        # protection with pkcs=1 is ignored / prot_params without protection
        try:
            key.export_key(format='DER', pkcs=8, passphrase=PW,
                           prot_params={'iteration_count': 5})
        except ValueError:
            count('exports refused by the library as documented')
        else:
            mismatch(sec, "prot_params without protection accepted")
        log("  RSA %d done" % bits)


def section1_dsa():
    sec = '1.DSA'
    for bits in (1024, 2048):
        key = DSA.generate(bits, domain=DSA_DOMAINS[bits])
        want = dsa_numbers(key)
        wpub = dsa_numbers(key.public_key())
        pub = key.public_key()
        for fmt in ('PEM', 'DER', 'OpenSSH'):
            try_export(sec, 'DSA-public', pub, wpub, {'format': fmt})
        try_export(sec, 'DSA-public', pub, wpub,
                   {'format': 'DER', 'pkcs8': True}, expect_error=True)
        try_export(sec, 'DSA', key, want, {'format': 'OpenSSH'},
                   ignore=('x', 'private'))
        for fmt in ('PEM', 'DER'):
            for p8 in (None, True, False):
                kw = {'format': fmt}
                if p8 is not None:
                    kw['pkcs8'] = p8
                try_export(sec, 'DSA', key, want, kw)
                kw = dict(kw, passphrase=PW)
                try_export(sec, 'DSA', key, want, kw, passphrase=PW,
                           expect_error=(fmt == 'DER' and p8 is False))
        protections = PROTECTIONS[::5] if bits == 1024 else PROTECTIONS[3::17]
        if QUICK:
            protections = protections[:4]
        for prot in protections:
            for fmt in ('PEM', 'DER'):
                blob = try_export(sec, 'DSA', key, want,
                                  {'format': fmt, 'pkcs8': True,
                                   'passphrase': PW, 'protection': prot},
                                  passphrase=PW)
                if blob is not None:
                    check_encryption_info(sec, blob, PW, prot, None)
        # protection is ignored with pkcs8=False (legacy PEM encryption)
        try_export(sec, 'DSA', key, want,
                   {'format': 'PEM', 'pkcs8': False, 'passphrase': PW,
                    'protection': 'scryptAndAES128-CBC'}, passphrase=PW)
        log("  DSA %d done" % bits)


def section1_ecc():
    sec = '1.ECC'
    for curve in ECC_CURVES:
        c = kf.curve_by_name(curve)
        key = ECC.generate(curve=curve)
        pub = key.public_key()
        ws = c.kind == 'weierstrass'
        kind = 'ECC[%s]' % curve
        # public key
        for compress in (False, True):
            wpub = ecc_numbers(pub, compress)
            for fmt in ('PEM', 'DER'):
                try_export(sec, kind + '-public', pub, wpub,
                           {'format': fmt, 'compress': compress})
            try_export(sec, kind + '-public', pub, wpub,
                       {'format': 'raw', 'compress': compress}, curve=curve)
            try_export(sec, kind + '-public', pub, wpub,
                       {'format': 'SEC1', 'compress': compress}, curve=curve,
                       expect_error=not ws)
            try_export(sec, kind + '-public', pub, wpub,
                       {'format': 'OpenSSH', 'compress': compress},
                       expect_error=(c.ssh_type is None),
                       expect_note=('non standard SSH curve name'
                                    if ws and not c.ssh_standard else None))
        try_export(sec, kind + '-public', pub, ecc_numbers(pub, False),
                   {'format': 'PEM', 'passphrase': PW}, expect_error=True)
        # private key
        want = ecc_numbers(key, False)
        for fmt in ('SEC1', 'raw', 'OpenSSH'):
            try_export(sec, kind, key, want, {'format': fmt},
                       expect_error=True)
        for fmt in ('PEM', 'DER'):
            try_export(sec, kind, key, want, {'format': fmt})
            try_export(sec, kind, key, want,
                       {'format': fmt, 'use_pkcs8': True})
            try_export(sec, kind, key, want,
                       {'format': fmt, 'use_pkcs8': False},
                       expect_error=not ws)
            # passphrase without protection and PKCS#8: refused
            try_export(sec, kind, key, want,
                       {'format': fmt, 'passphrase': PW}, passphrase=PW,
                       expect_error=True)
            try_export(sec, kind, key, want,
                       {'format': fmt, 'use_pkcs8': False, 'passphrase': PW},
                       passphrase=PW, expect_error=(fmt == 'DER' or not ws))
            try_export(sec, kind, key, want,
                       {'format': fmt, 'use_pkcs8': False, 'passphrase': PW,
                        'protection': 'scryptAndAES128-CBC'},
                       passphrase=PW, expect_error=True)
            # compress is accepted and irrelevant for private keys
            try_export(sec, kind, key, want,
                       {'format': fmt, 'compress': True})
        protections = PROTECTIONS
        if QUICK:
            protections = PROTECTIONS[::7]
        for i, prot in enumerate(protections):
            for fmt in ('PEM', 'DER'):
                pp = small_params(prot)
                kw = {'format': fmt, 'passphrase': PW, 'protection': prot,
                      'prot_params': pp}
                if i % 2:
                    kw['use_pkcs8'] = True
                blob = try_export(sec, kind, key, want, kw, passphrase=PW)
                if blob is not None and i % 4 == 0:
                    check_encryption_info(sec, blob, PW, prot, pp)
        # passphrase given as str
        try_export(sec, kind, key, want,
                   {'format': 'DER', 'passphrase': PW.decode(),
                    'protection': 'PBKDF2WithHMAC-SHA256AndAES128-CBC',
                    'prot_params': {'iteration_count': 3}}, passphrase=PW)
        log("  %s done" % kind)
