"""Development-time cross check of ref.der / ref.keyfiles / ref.padding against
the library (pycryptodome).  This is the ONLY file of the three models that
imports Crypto.  Run:

    PYTHONPATH=/verif /venv/bin/python /verif/ref/devcheck_encodings.py [-v] [--quick]
    (environment: DEVCHECK_SEED=<int>, DEVCHECK_ONLY=<section numbers, comma separated>)

Sections
  1. library export_key() in every format / protection combination
     -> model parser recovers the same numbers; every DER layer is strict DER
        and re-encodes to itself
  2. blobs built by the model encoders -> library import_key() gives the same
     numbers
  3. DER primitives against Crypto.Util.asn1 (both directions) + strictness
  4. padding and RFC 1751 against Crypto.Util.Padding / Crypto.Util.RFC1751
  5. probes: inputs where specification and library are expected to differ
  6. mutation fuzzing of valid blobs: the model raises nothing but ValueError
     and never accepts an input the library refuses (unless the numbers are
     merely arithmetically inconsistent) or decodes differently

The script ends with "MISMATCHES: 0" when everything agrees; documented
library deviations are listed separately (they are findings, not model bugs).
"""

import base64
import itertools
import os
import random
import sys
import time
import types

sys.path.insert(0, os.path.dirname(os.path.dirname(os.path.abspath(__file__))))

VERBOSE = '-v' in sys.argv
QUICK = '--quick' in sys.argv


def install_cipher_adapter():
    """If ref.ciphers / ref.modes do not exist yet, wrap the library's ECB
    objects into the same duck type (development only)."""
    try:
        from ref import ciphers, modes      # noqa: F401
        return False
    except ImportError:
        pass
    from Crypto.Cipher import AES as _AES, DES as _DES, DES3 as _DES3, \
        ARC2 as _ARC2

    def make(mod, bs, **kw):
        class C(object):
            block_size = bs

            def __init__(self, key, *extra):
                self.key = bytes(key)
                args = dict(kw)
                if extra and extra[0] is not None:
                    args['effective_keylen'] = extra[0]
                self._e = mod.new(self.key, mod.MODE_ECB, **args)

            def encrypt_block(self, b):
                return self._e.encrypt(bytes(b))

            def decrypt_block(self, b):
                return self._e.decrypt(bytes(b))
        return C

    cm = types.ModuleType('ref.ciphers')
    cm.AES = make(_AES, 16)
    cm.DES = make(_DES, 8)
    cm.DES3 = make(_DES3, 8)
    cm.RC2 = make(_ARC2, 8)
    mm = types.ModuleType('ref.modes')

    def xor(a, b):
        return bytes(x ^ y for x, y in zip(a, b))

    def cbc_encrypt(c, iv, pt):
        out, prev = [], iv
        for i in range(0, len(pt), c.block_size):
            prev = c.encrypt_block(xor(pt[i:i + c.block_size], prev))
            out.append(prev)
        return b''.join(out)

    def cbc_decrypt(c, iv, ct):
        out, prev = [], iv
        for i in range(0, len(ct), c.block_size):
            blk = ct[i:i + c.block_size]
            out.append(xor(c.decrypt_block(blk), prev))
            prev = blk
        return b''.join(out)

    def gcm_seal(c, nonce, aad, pt, mac_len=16):
        g = _AES.new(c.key, _AES.MODE_GCM, nonce=nonce, mac_len=mac_len)
        g.update(aad)
        return g.encrypt_and_digest(pt)

    def gcm_open(c, nonce, aad, ct, mac_len=16):
        g = _AES.new(c.key, _AES.MODE_GCM, nonce=nonce, mac_len=mac_len)
        g.update(aad)
        pt = g.decrypt(ct)
        return pt, g.digest()
    mm.cbc_encrypt, mm.cbc_decrypt = cbc_encrypt, cbc_decrypt
    mm.gcm_seal, mm.gcm_open = gcm_seal, gcm_open
    import ref
    sys.modules['ref.ciphers'] = ref.ciphers = cm
    sys.modules['ref.modes'] = ref.modes = mm
    return True


ADAPTER = install_cipher_adapter()

from ref import der, keyfiles as kf, padding as rpad      # noqa: E402

from Crypto.PublicKey import RSA, DSA, ECC                  # noqa: E402
from Crypto.Util import asn1, Padding, RFC1751              # noqa: E402
from Crypto.IO import PKCS8, PEM                            # noqa: E402

SEED = int(os.environ.get('DEVCHECK_SEED', '20260925'))
ONLY = os.environ.get('DEVCHECK_ONLY', '')     # e.g. '6' or '1,2'
RND = random.Random(SEED)

COUNTS = {}
MISMATCHES = []
DEVIATIONS = []     # analysed library deviations: (id, text)


def count(section, n=1):
    COUNTS[section] = COUNTS.get(section, 0) + n


def mismatch(section, what):
    MISMATCHES.append((section, what))
    print("  MISMATCH [%s] %s" % (section, what))


def deviation(ident, text):
    if ident not in [d[0] for d in DEVIATIONS]:
        DEVIATIONS.append((ident, text))


def log(msg):
    if VERBOSE:
        print(msg)


# ---------------------------------------------------------------------------
# keys
# ---------------------------------------------------------------------------

DSA_DOMAINS = {
    1024: (0x8b618d49349917bc695184e0e2e486219851e70f1791acf256a6fbb7ae4c52d744446dfb09172433d70ed78895bcee25f350acef362bfb157c5884bdb6a391bc8779f960b5f4a3e1c07a2d324e7a01d1ec9e0812dd55b37a4f5bc19ca03c9e64fc8ce0d19564dbad5aacd77502f25882f3ebd151378420eaed7bcc8ac1238f19,
           0x8040f24e84674ca08a91389ab487ccaab3878fb3,
           0x6f57ea0ccb5abd805749f35e7584c5e7427552e32a802551236985745d78c85ec28208cc2ad8ec019ea5b4f7b98b711aff29da87ce904997152e9c8d3a35b6fcc14d3e874f43143649cd6260390cd9c40074cbc8ee0eb5b25db7087fc0f2343b37c9210a71974bab31c9125fecc634d746636af72ab3189a2809b9452fe47d88),
    2048: (0xb99ac760d9fd5ec8fc8aec630f2b2d5bcc35f31a0349b8b208ffcbb42811eaac9d0c889708f727289ca5c192343a413e5836bbba647a2d83c6c865d3920ace87f663e287ec030e584cc5f8108f5778da6dcbaa18e2758c4c09b256d26129cc3896b0ae0d3e6586ec2bc2551127d4b23a34364b0bf34ac0ce2d8f5c7a9c5d42b0b22afe77337595cdd330d458e0d612033a575c4ac5fcbc23b84d0cde73b821f2e1b29501c4c7b141e331b37b21470fd72e073c9d8a7e75418e750316b9c23085719b3c1d0c3bdf6af86205c17c96db9bfbb4165250ef86c73f302757f821f7b776adf1623ca79f5b214fa95612b0edbdef021dbbaa4c3426b08ce4ba65ecaced,
           0xe25fe0bfd7be10175f06fa2a73ae3256716e3ddcbe6001a736b4709f,
           0x47ae110e4721b40a02187a6775ed40f0ef12d73b9c5e9313fede0b20847f3722a41c52c12b54011c3fc905722272ddd7638ca4e3ac09457871bfdf9da3efbc58cbd006940b6c30f624566c633165b92283f3eea0eadf34bee50b4fd0c1d9f1e65fcb4ffa5a11fd83baf2435c30e66d0ca73ea7984702c700836de68b246b1ce77097606e59ddf66986401ecf69c719792a55c67784742907a0cf0c60a47844bbd8351fe6558ff7521dbdd2520a8136fb757968d81d0f3582f03d7d76a6f594b147b5c495f4775f6cfdcae2a7d3d17631f29344acacec562f564c45ff59af948bbfaa1b722f9b3ccc1fea4993348e7dddf87e095c1cc165971150d03b77b7c1ee),
}

ECC_CURVES = ['NIST P-192', 'NIST P-224', 'NIST P-256', 'NIST P-384',
              'NIST P-521', 'Ed25519', 'Ed448', 'Curve25519', 'Curve448']

# every protection string Crypto.IO._PBES.PBES2.encrypt understands:
#   'PBKDF2WithHMAC-' + hash + 'And' + cipher   and   'scryptAnd' + cipher
HASHES = ['SHA1', 'SHA224', 'SHA256', 'SHA384', 'SHA512', 'SHA512-224',
          'SHA512-256', 'SHA3-224', 'SHA3-256', 'SHA3-384', 'SHA3-512']
CIPHERS = ['DES-EDE3-CBC', 'AES128-CBC', 'AES192-CBC', 'AES256-CBC',
           'AES128-GCM', 'AES192-GCM', 'AES256-GCM']
PROTECTIONS = ['PBKDF2WithHMAC-%sAnd%s' % (h, c)
               for h in HASHES for c in CIPHERS] + \
              ['scryptAnd' + c for c in CIPHERS]
CIPHER_TO_MODEL = dict((c, c.lower() if c != 'DES-EDE3-CBC' else 'des-ede3-cbc')
                       for c in CIPHERS)
PW = b'correct horse'


def rsa_numbers(k):
    d = {'type': 'RSA', 'private': k.has_private(), 'n': int(k.n),
         'e': int(k.e)}
    if k.has_private():
        d.update({'d': int(k.d), 'p': int(k.p), 'q': int(k.q),
                  'dp': int(k.d) % (int(k.p) - 1),
                  'dq': int(k.d) % (int(k.q) - 1),
                  'qinv': pow(int(k.q), -1, int(k.p))})
    return d


def dsa_numbers(k):
    d = {'type': 'DSA', 'private': k.has_private(), 'p': int(k.p),
         'q': int(k.q), 'g': int(k.g), 'y': int(k.y)}
    if k.has_private():
        d['x'] = int(k.x)
    return d


def ecc_numbers(k, compressed=None):
    c = kf.curve_by_name(k.curve)
    d = {'type': 'ECC', 'curve': k.curve, 'private': k.has_private(),
         'x': int(k.pointQ.x)}
    if c.kind != 'montgomery':
        d['y'] = int(k.pointQ.y)
    if k.has_private():
        if c.kind == 'weierstrass':
            d['d'] = int(k.d)
        else:
            d['seed'] = bytes(k.seed)
    d['compressed'] = compressed if c.kind == 'weierstrass' else None
    return d


def same_numbers(got, want, ignore=()):
    g = kf.strip_meta(got)
    w = dict(want)
    for k in ignore:
        g.pop(k, None)
        w.pop(k, None)
    return g == w


# ---------------------------------------------------------------------------
# DER layers
# ---------------------------------------------------------------------------

def check_der_layer(section, label, blob):
    probs = der.strict_problems(blob)
    if probs:
        mismatch(section, "%s: not strict DER: %s" % (label, probs))
        return None
    node = der.parse(blob)
    if der.reencode(node) != blob:
        mismatch(section, "%s: reencode differs" % label)
    count('der layers checked')
    return node


def der_layers(section, label, blob, passphrase):
    """Check blob and every nested DER structure (decrypted PKCS#8 payload,
    privateKey OCTET STRING content, subjectPublicKey BIT STRING content)."""
    top = check_der_layer(section, label, blob)
    if top is None:
        return
    kind = kf._looks_like(top)
    if kind in ('pkcs8', 'pkcs8-encrypted'):
        r = kf.pkcs8_unwrap_ex(blob, passphrase)
        if r['encrypted']:
            check_der_layer(section, label + '/decrypted', r['inner_der'])
        inner = r['private_key']
        node = check_der_layer(section, label + '/privateKey', inner)
        if node is not None and node.is_universal(der.T_SEQUENCE) and \
                kf._looks_like(node) == 'ec-private':
            pass
    elif kind == 'spki':
        bits, _ = der.dec_bitstring(top.children[1])
        oid = der.dec_oid(top.children[0].children[0])
        if oid in (kf.OID_RSA, kf.OID_DSA):
            check_der_layer(section, label + '/subjectPublicKey', bits)


# ---------------------------------------------------------------------------
# 1. library exports -> model parser
# ---------------------------------------------------------------------------

EXPORT_COMBOS = []      # (key kind, kwargs description) for the final report


def note_combo(kind, desc):
    if (kind, desc) not in EXPORT_COMBOS:
        EXPORT_COMBOS.append((kind, desc))


def try_export(section, kind, key, want, kwargs, passphrase=None,
               expect_error=False, ignore=(), curve=None, check_layers=True,
               expect_note=None):
    desc = ", ".join("%s=%r" % (k, v) for k, v in sorted(kwargs.items())
                     if k not in ('passphrase', 'prot_params', 'randfunc'))
    if 'passphrase' in kwargs:
        desc += ", passphrase"
    if 'prot_params' in kwargs:
        desc += ", prot_params"
    try:
        blob = key.export_key(**kwargs)
    except ValueError as e:
        if expect_error:
            note_combo(kind, desc + "  -> ValueError (documented)")
            count('exports refused by the library as documented')
            return None
        mismatch(section, "%s export_key(%s) raised %r" % (kind, desc, e))
        return None
    if expect_error:
        mismatch(section, "%s export_key(%s) did not raise" % (kind, desc))
        return None
    note_combo(kind, desc)
    count('exports parsed')
    try:
        got = kf.parse_any(blob, passphrase, curve=curve)
    except Exception as e:
        mismatch(section, "%s export_key(%s): model raised %s: %s" %
                 (kind, desc, type(e).__name__, e))
        return blob
    if not same_numbers(got, want, ignore):
        mismatch(section, "%s export_key(%s): numbers differ\n   got  %r\n"
                 "   want %r" % (kind, desc, kf.strip_meta(got), want))
    if expect_note is not None:
        notes = " | ".join(got.get('_notes', []))
        if expect_note not in notes:
            mismatch(section, "%s export_key(%s): expected note %r, got %r" %
                     (kind, desc, expect_note, notes))
    # DER layers
    if check_layers:
        raw = blob if isinstance(blob, bytes) else blob.encode()
        if raw.lstrip().startswith(b'-----BEGIN'):
            dblob = kf.pem_decode(raw, passphrase)[0]
            der_layers(section, "%s(%s)" % (kind, desc), dblob, passphrase)
        elif raw[:1] == b'\x30':
            der_layers(section, "%s(%s)" % (kind, desc), raw, passphrase)
    # wrong passphrase must be refused
    if passphrase is not None and kwargs.get('passphrase') is not None:
        try:
            kf.parse_any(blob, passphrase + b'x', curve=curve)
        except ValueError:
            count('wrong passphrase refused')
        else:
            # CBC + PKCS#7: 1/256 chance of valid padding, then DER fails
            mismatch(section, "%s export_key(%s): wrong passphrase accepted"
                     % (kind, desc))
    return blob


def check_encryption_info(section, blob, passphrase, protection, prot_params):
    """The parameters found in the container are the requested ones."""
    raw = blob if isinstance(blob, bytes) else blob.encode()
    if raw.lstrip().startswith(b'-----BEGIN'):
        raw = kf.pem_decode(raw)[0]
    info = kf.pkcs8_unwrap_ex(raw, passphrase)['encryption']
    if protection.startswith('scrypt'):
        want_kdf, want_prf = 'scrypt', None
        cname = protection[len('scryptAnd'):]
        default_count = 16384
    else:
        h, cname = protection[len('PBKDF2WithHMAC-'):].split('And')
        want_kdf = 'pbkdf2'
        want_prf = h.lower().replace('-', '_')
        default_count = 1000
    pp = prot_params or {}
    ok = (info['kdf'] == want_kdf and info['prf'] == want_prf and
          info['cipher'] == CIPHER_TO_MODEL[cname] and
          info['iterations'] == pp.get('iteration_count', default_count) and
          len(info['salt']) == pp.get('salt_size', 8))
    if want_kdf == 'scrypt':
        ok = ok and info['block_size'] == pp.get('block_size', 8) and \
            info['parallelization'] == pp.get('parallelization', 1)
    if not ok:
        mismatch(section, "encryption parameters for %s %r: found %r" %
                 (protection, prot_params, info))
    count('encryption parameter sets verified')


def small_params(protection):
    if protection.startswith('scrypt'):
        return {'iteration_count': 16, 'block_size': 2, 'parallelization': 2,
                'salt_size': 11}
    return {'iteration_count': 9, 'salt_size': 13}


def section1_rsa():
    sec = '1.RSA'
    sizes = [1024, 1025] if QUICK else [1024, 1025, 2048]
    for bits in sizes:
        key = RSA.generate(bits)
        want = rsa_numbers(key)
        wpub = rsa_numbers(key.public_key())
        kind = 'RSA'
        pub = key.public_key()
        for fmt in ('PEM', 'DER', 'OpenSSH'):
            try_export(sec, kind + '-public', pub, wpub, {'format': fmt})
            # pkcs is ignored for public keys
            try_export(sec, kind + '-public', pub, wpub,
                       {'format': fmt, 'pkcs': 8})
        try_export(sec, kind, key, want, {'format': 'OpenSSH'},
                   ignore=('d', 'p', 'q', 'dp', 'dq', 'qinv', 'private'))
        for fmt in ('PEM', 'DER'):
            for pkcs in (1, 8):
                try_export(sec, kind, key, want,
                           {'format': fmt, 'pkcs': pkcs})
                try_export(sec, kind, key, want,
                           {'format': fmt, 'pkcs': pkcs, 'passphrase': PW},
                           passphrase=PW,
                           expect_error=(fmt == 'DER' and pkcs == 1))
        # protection given without passphrase: see probes (mislabelled PEM)
        protections = PROTECTIONS if bits == 1024 else PROTECTIONS[::9]
        for prot in protections:
            for fmt in ('PEM', 'DER'):
                pp = small_params(prot)
                blob = try_export(sec, kind, key, want,
                                  {'format': fmt, 'pkcs': 8, 'passphrase': PW,
                                   'protection': prot, 'prot_params': pp},
                                  passphrase=PW)
                if blob is not None:
                    check_encryption_info(sec, blob, PW, prot, pp)
        # default parameters (1000 iterations / N=16384)
        for prot in ('PBKDF2WithHMAC-SHA512AndAES256-CBC',
                     'scryptAndAES128-CBC'):
            blob = try_export(sec, kind, key, want,
                              {'format': 'DER', 'pkcs': 8, 'passphrase': PW,
                               'protection': prot}, passphrase=PW)
            if blob is not None:
                check_encryption_info(sec, blob, PW, prot, None)
        # protection with pkcs=1 is ignored / prot_params without protection
        try:
            key.export_key(format='DER', pkcs=8, passphrase=PW,
                           prot_params={'iteration_count': 5})
        except ValueError:
            count('exports refused by the library as documented')
        else:
            mismatch(sec, "prot_params without protection accepted")
        log("  RSA %d done" % bits)


def section1_dsa():
    sec = '1.DSA'
    for bits in (1024, 2048):
        key = DSA.generate(bits, domain=DSA_DOMAINS[bits])
        want = dsa_numbers(key)
        wpub = dsa_numbers(key.public_key())
        pub = key.public_key()
        for fmt in ('PEM', 'DER', 'OpenSSH'):
            try_export(sec, 'DSA-public', pub, wpub, {'format': fmt})
        try_export(sec, 'DSA-public', pub, wpub,
                   {'format': 'DER', 'pkcs8': True}, expect_error=True)
        try_export(sec, 'DSA', key, want, {'format': 'OpenSSH'},
                   ignore=('x', 'private'))
        for fmt in ('PEM', 'DER'):
            for p8 in (None, True, False):
                kw = {'format': fmt}
                if p8 is not None:
                    kw['pkcs8'] = p8
                try_export(sec, 'DSA', key, want, kw)
                kw = dict(kw, passphrase=PW)
                try_export(sec, 'DSA', key, want, kw, passphrase=PW,
                           expect_error=(fmt == 'DER' and p8 is False))
        protections = PROTECTIONS[::5] if bits == 1024 else PROTECTIONS[3::17]
        if QUICK:
            protections = protections[:4]
        for prot in protections:
            for fmt in ('PEM', 'DER'):
                blob = try_export(sec, 'DSA', key, want,
                                  {'format': fmt, 'pkcs8': True,
                                   'passphrase': PW, 'protection': prot},
                                  passphrase=PW)
                if blob is not None:
                    check_encryption_info(sec, blob, PW, prot, None)
        # protection is ignored with pkcs8=False (legacy PEM encryption)
        try_export(sec, 'DSA', key, want,
                   {'format': 'PEM', 'pkcs8': False, 'passphrase': PW,
                    'protection': 'scryptAndAES128-CBC'}, passphrase=PW)
        log("  DSA %d done" % bits)


def section1_ecc():
    sec = '1.ECC'
    for curve in ECC_CURVES:
        c = kf.curve_by_name(curve)
        key = ECC.generate(curve=curve)
        pub = key.public_key()
        ws = c.kind == 'weierstrass'
        kind = 'ECC[%s]' % curve
        # public key
        for compress in (False, True):
            wpub = ecc_numbers(pub, compress)
            for fmt in ('PEM', 'DER'):
                try_export(sec, kind + '-public', pub, wpub,
                           {'format': fmt, 'compress': compress})
            try_export(sec, kind + '-public', pub, wpub,
                       {'format': 'raw', 'compress': compress}, curve=curve)
            try_export(sec, kind + '-public', pub, wpub,
                       {'format': 'SEC1', 'compress': compress}, curve=curve,
                       expect_error=not ws)
            try_export(sec, kind + '-public', pub, wpub,
                       {'format': 'OpenSSH', 'compress': compress},
                       expect_error=(c.ssh_type is None),
                       expect_note=('non standard SSH curve name'
                                    if ws and not c.ssh_standard else None))
        try_export(sec, kind + '-public', pub, ecc_numbers(pub, False),
                   {'format': 'PEM', 'passphrase': PW}, expect_error=True)
        # private key
        want = ecc_numbers(key, False)
        for fmt in ('SEC1', 'raw', 'OpenSSH'):
            try_export(sec, kind, key, want, {'format': fmt},
                       expect_error=True)
        for fmt in ('PEM', 'DER'):
            try_export(sec, kind, key, want, {'format': fmt})
            try_export(sec, kind, key, want,
                       {'format': fmt, 'use_pkcs8': True})
            try_export(sec, kind, key, want,
                       {'format': fmt, 'use_pkcs8': False},
                       expect_error=not ws)
            # passphrase without protection and PKCS#8: refused
            try_export(sec, kind, key, want,
                       {'format': fmt, 'passphrase': PW}, passphrase=PW,
                       expect_error=True)
            try_export(sec, kind, key, want,
                       {'format': fmt, 'use_pkcs8': False, 'passphrase': PW},
                       passphrase=PW, expect_error=(fmt == 'DER' or not ws))
            try_export(sec, kind, key, want,
                       {'format': fmt, 'use_pkcs8': False, 'passphrase': PW,
                        'protection': 'scryptAndAES128-CBC'},
                       passphrase=PW, expect_error=True)
            # compress is accepted and irrelevant for private keys
            try_export(sec, kind, key, want,
                       {'format': fmt, 'compress': True})
        protections = PROTECTIONS
        if QUICK:
            protections = PROTECTIONS[::7]
        for i, prot in enumerate(protections):
            for fmt in ('PEM', 'DER'):
                pp = small_params(prot)
                kw = {'format': fmt, 'passphrase': PW, 'protection': prot,
                      'prot_params': pp}
                if i % 2:
                    kw['use_pkcs8'] = True
                blob = try_export(sec, kind, key, want, kw, passphrase=PW)
                if blob is not None and i % 4 == 0:
                    check_encryption_info(sec, blob, PW, prot, pp)
        # passphrase given as str
        try_export(sec, kind, key, want,
                   {'format': 'DER', 'passphrase': PW.decode(),
                    'protection': 'PBKDF2WithHMAC-SHA256AndAES128-CBC',
                    'prot_params': {'iteration_count': 3}}, passphrase=PW)
        log("  %s done" % kind)


# ---------------------------------------------------------------------------
# 2. model encoders -> library importers
# ---------------------------------------------------------------------------

def lib_import(section, label, module, blob, passphrase, want, numbers,
               ignore=(), **kw):
    count('model blobs imported by the library')
    try:
        key = module.import_key(blob, passphrase, **kw) if kw else \
            module.import_key(blob, passphrase)
    except Exception as e:
        mismatch(section, "%s: library raised %s: %s" %
                 (label, type(e).__name__, e))
        return
    got = numbers(key)
    w = dict(want)
    for k in ignore:
        got.pop(k, None)
        w.pop(k, None)
    if got != w:
        mismatch(section, "%s: library numbers differ\n   got  %r\n   want %r"
                 % (label, got, w))


def model_rsa_key(bits):
    """An RSA key the library never saw, built with the model's own
    arithmetic (primes from the library's number module are avoided)."""
    def prime(nbits):
        while True:
            c = RND.getrandbits(nbits) | (1 << (nbits - 1)) | \
                (1 << (nbits - 2)) | 1
            if kf._is_probable_prime(c) and (c - 1) % 65537:
                return c
    p = prime(bits // 2)
    q = prime(bits - bits // 2)
    while q == p:
        q = prime(bits - bits // 2)
    n, e = p * q, 65537
    from math import gcd
    lam = (p - 1) * (q - 1) // gcd(p - 1, q - 1)
    d = pow(e, -1, lam)
    return {'type': 'RSA', 'private': True, 'n': n, 'e': e, 'd': d, 'p': p,
            'q': q, 'dp': d % (p - 1), 'dq': d % (q - 1),
            'qinv': pow(q, -1, p)}


def encrypted_variants(inner):
    """Encrypted PKCS#8 blobs made by the model, all schemes."""
    out = []
    kdfs = [('pbkdf2', h.lower().replace('-', '_')) for h in HASHES] + \
        [('scrypt', None)]
    ciphers = list(CIPHER_TO_MODEL.values())
    for i, (kdf, prf) in enumerate(kdfs):
        for j, cipher in enumerate(ciphers):
            if QUICK and (i + j) % 3:
                continue
            blob = kf.pkcs8_encrypt(
                inner, PW, kdf=kdf, prf=prf or 'sha1', cipher=cipher,
                iterations=16 if kdf == 'scrypt' else 5 + i,
                block_size=1, parallelization=1,
                include_key_length=bool((i + j) % 2),
                prf_null=bool(j % 2))
            out.append(("PBES2 %s/%s/%s" % (kdf, prf, cipher), blob))
    for (h, c) in kf._PBES1_BY_NAME:
        out.append(("PBES1 %s/%s" % (h, c),
                    kf.pbes1_encrypt(inner, PW, h, c, 7)))
    return out


def section2():
    sec = '2'
    # ---- RSA ----
    for bits in ((1024,) if QUICK else (1024, 1031)):
        k = model_rsa_key(bits)
        want = kf.strip_meta(k)
        wpub = {'type': 'RSA', 'private': False, 'n': k['n'], 'e': k['e']}
        p1 = kf.rsa_pkcs1_private_der(k)
        p8 = kf.rsa_pkcs8_der(k)
        lib_import(sec, 'RSA pkcs1 DER', RSA, p1, None, want, rsa_numbers)
        lib_import(sec, 'RSA pkcs1 PEM', RSA,
                   kf.pem_encode(p1, 'RSA PRIVATE KEY'), None, want,
                   rsa_numbers)
        lib_import(sec, 'RSA pkcs8 DER', RSA, p8, None, want, rsa_numbers)
        lib_import(sec, 'RSA pkcs8 PEM', RSA, kf.pem_encode(p8, 'PRIVATE KEY'),
                   None, want, rsa_numbers)
        lib_import(sec, 'RSA spki DER', RSA, kf.rsa_spki_der(k), None, wpub,
                   rsa_numbers)
        lib_import(sec, 'RSA spki PEM', RSA,
                   kf.pem_encode(kf.rsa_spki_der(k), 'PUBLIC KEY',
                                 trailing_newline=True), None, wpub,
                   rsa_numbers)
        lib_import(sec, 'RSA pkcs1 public DER', RSA,
                   kf.rsa_pkcs1_public_der(k), None, wpub, rsa_numbers)
        lib_import(sec, 'RSA pkcs1 public PEM', RSA,
                   kf.pem_encode(kf.rsa_pkcs1_public_der(k),
                                 'RSA PUBLIC KEY'), None, wpub, rsa_numbers)
        lib_import(sec, 'RSA openssh public', RSA,
                   kf.openssh_public_encode(k, 'me@host'), None, wpub,
                   rsa_numbers)
        # the library swaps p and q for OpenSSH private keys
        swapped = dict(want, p=k['q'], q=k['p'], dp=k['dq'], dq=k['dp'],
                       qinv=pow(k['p'], -1, k['q']))
        lib_import(sec, 'RSA openssh private', RSA,
                   kf.openssh_private_encode(k, b'comment'), None, swapped,
                   rsa_numbers)
        for algo in kf._DEK_ALGOS:
            lib_import(sec, 'RSA pkcs1 PEM ' + algo, RSA,
                       kf.pem_encode(p1, 'RSA PRIVATE KEY', PW, algo), PW,
                       want, rsa_numbers)
        if bits == 1024:
            for label, blob in encrypted_variants(p8):
                lib_import(sec, 'RSA pkcs8 ' + label, RSA, blob, PW, want,
                           rsa_numbers)
                lib_import(sec, 'RSA pkcs8 PEM ' + label, RSA,
                           kf.pem_encode(blob, 'ENCRYPTED PRIVATE KEY'), PW,
                           want, rsa_numbers)
    # ---- DSA ----
    p, q, g = DSA_DOMAINS[1024]
    x = RND.randrange(1, q)
    k = {'type': 'DSA', 'private': True, 'p': p, 'q': q, 'g': g,
         'y': pow(g, x, p), 'x': x}
    wpub = dict((a, b) for a, b in k.items() if a != 'x')
    wpub['private'] = False
    lib_import(sec, 'DSA traditional DER', DSA,
               kf.dsa_traditional_private_der(k), None, k, dsa_numbers)
    lib_import(sec, 'DSA traditional PEM', DSA,
               kf.pem_encode(kf.dsa_traditional_private_der(k),
                             'DSA PRIVATE KEY'), None, k, dsa_numbers)
    lib_import(sec, 'DSA traditional PEM enc', DSA,
               kf.pem_encode(kf.dsa_traditional_private_der(k),
                             'DSA PRIVATE KEY', PW, 'AES-256-CBC'), PW, k,
               dsa_numbers)
    lib_import(sec, 'DSA pkcs8 DER', DSA, kf.dsa_pkcs8_der(k), None, k,
               dsa_numbers)
    lib_import(sec, 'DSA spki DER', DSA, kf.dsa_spki_der(k), None, wpub,
               dsa_numbers)
    lib_import(sec, 'DSA openssh public', DSA, kf.openssh_public_encode(k),
               None, wpub, dsa_numbers)
    for label, blob in encrypted_variants(kf.dsa_pkcs8_der(k))[::7]:
        lib_import(sec, 'DSA pkcs8 ' + label, DSA, blob, PW, k, dsa_numbers)
    # ---- ECC ----
    for curve in ECC_CURVES:
        c = kf.curve_by_name(curve)
        if c.kind == 'weierstrass':
            d = RND.randrange(1, c.n)
            x, y = kf.ec_public_from_private(c, d)
            k = {'type': 'ECC', 'curve': curve, 'private': True, 'd': d,
                 'x': x, 'y': y, 'compressed': False}
        else:
            seed = bytes(RND.getrandbits(8) for _ in range(c.key_len))
            k = kf.parse_raw_private(seed, c)
        want = kf.strip_meta(k)
        wpub = dict((a, b) for a, b in want.items() if a not in ('d', 'seed'))
        wpub['private'] = False
        num = lambda key: ecc_numbers(key, False)
        lib_import(sec, curve + ' pkcs8 DER', ECC, kf.ec_pkcs8_der(k), None,
                   want, num)
        lib_import(sec, curve + ' pkcs8 PEM', ECC,
                   kf.pem_encode(kf.ec_pkcs8_der(k), 'PRIVATE KEY'), None,
                   want, num)
        lib_import(sec, curve + ' spki DER', ECC, kf.ec_spki_der(k), None,
                   wpub, num)
        lib_import(sec, curve + ' spki PEM', ECC,
                   kf.pem_encode(kf.ec_spki_der(k), 'PUBLIC KEY'), None, wpub,
                   num)
        if c.kind == 'weierstrass':
            lib_import(sec, curve + ' spki compressed', ECC,
                       kf.ec_spki_der(k, compressed=True), None, wpub, num)
            for ip, ipub in itertools.product((True, False), repeat=2):
                blob = kf.ec_sec1_private_der(k, ip, ipub)
                if ip:
                    lib_import(sec, curve + ' ECPrivateKey %s %s' % (ip, ipub),
                               ECC, blob, None, want, num)
                # inside PKCS#8 the parameters may be absent
                lib_import(sec, curve + ' pkcs8(ECPrivateKey %s %s)' %
                           (ip, ipub), ECC,
                           kf.pkcs8_wrap(kf.OID_EC_PUBLIC_KEY, blob,
                                         der.enc_oid(c.oid)), None, want, num)
            lib_import(sec, curve + ' EC PRIVATE KEY PEM enc', ECC,
                       kf.pem_encode(kf.ec_sec1_private_der(k),
                                     'EC PRIVATE KEY', PW, 'AES-128-CBC'),
                       PW, want, num)
            for comp in (False, True):
                lib_import(sec, curve + ' SEC1 point', ECC,
                           kf.ec_sec1_point(k, comp), None, wpub, num,
                           curve_name=curve)
                lib_import(sec, curve + ' openssh public', ECC,
                           kf.openssh_public_encode(k, 'c', compressed=comp),
                           None, wpub, num)
            lib_import(sec, curve + ' openssh private', ECC,
                       kf.openssh_private_encode(k, b'x' * 5), None, want,
                       num)
        else:
            lib_import(sec, curve + ' pkcs8 v2 with public key', ECC,
                       kf.ec_pkcs8_der(k, v2_public=True), None, want, num)
            if curve == 'Ed25519':
                lib_import(sec, curve + ' openssh public', ECC,
                           kf.openssh_public_encode(k), None, wpub, num)
                lib_import(sec, curve + ' openssh private', ECC,
                           kf.openssh_private_encode(k, b''), None, want, num)
        variants = encrypted_variants(kf.ec_pkcs8_der(k))
        for label, blob in variants[::5]:
            lib_import(sec, curve + ' pkcs8 ' + label, ECC, blob, PW, want,
                       num)
        log("  section 2 %s done" % curve)


# ---------------------------------------------------------------------------
# 3. DER primitives
# ---------------------------------------------------------------------------

def rand_int():
    kind = RND.randrange(6)
    if kind == 0:
        return RND.randrange(-300, 300)
    if kind == 1:
        return RND.choice([1, -1]) * (1 << RND.randrange(0, 200))
    if kind == 2:
        return RND.choice([1, -1]) * ((1 << RND.randrange(1, 200)) - 1)
    if kind == 3:
        return -(1 << (8 * RND.randrange(1, 20) - 1)) - RND.randrange(2)
    bits = RND.randrange(1, 2100)
    return RND.choice([1, -1]) * RND.getrandbits(bits)


def rand_oid():
    first = RND.randrange(3)
    second = RND.randrange(40)
    arcs = [first, second]
    for _ in range(RND.randrange(0, 10)):
        arcs.append(RND.choice([0, 1, 127, 128, 16383, 16384,
                                RND.getrandbits(RND.randrange(1, 70))]))
    return ".".join(str(a) for a in arcs)


def section3():
    sec = '3'
    n = 300 if QUICK else 3000
    for _ in range(n):
        v = rand_int()
        mine = der.enc_int(v)
        lib = asn1.DerInteger(v).encode()
        count('der primitives compared')
        if mine != lib:
            mismatch(sec, "INTEGER %d: %s vs %s" % (v, mine.hex(), lib.hex()))
        if asn1.DerInteger().decode(mine, strict=True).value != v or \
                der.dec_int(der.parse(lib)) != v:
            mismatch(sec, "INTEGER %d decode" % v)
    for _ in range(n // 3):
        o = rand_oid()
        mine = der.enc_oid(o)
        lib = asn1.DerObjectId(o).encode()
        count('der primitives compared')
        if mine != lib:
            mismatch(sec, "OID %s: %s vs %s" % (o, mine.hex(), lib.hex()))
        if asn1.DerObjectId().decode(mine, strict=True).value != o or \
                der.dec_oid(der.parse(lib)) != o:
            mismatch(sec, "OID %s decode" % o)
    for ln in list(range(0, 300)) + [65535, 65536, 70001]:
        b = bytes(RND.getrandbits(8) for _ in range(ln))
        count('der primitives compared', 2)
        if der.enc_octets(b) != asn1.DerOctetString(b).encode():
            mismatch(sec, "OCTET STRING len %d" % ln)
        if der.enc_bitstring(b) != asn1.DerBitString(b).encode():
            mismatch(sec, "BIT STRING len %d" % ln)
        if asn1.DerOctetString().decode(der.enc_octets(b)).payload != b:
            mismatch(sec, "OCTET STRING decode len %d" % ln)
        if der.dec_bitstring(der.parse(asn1.DerBitString(b).encode())) != \
                (b, 0):
            mismatch(sec, "BIT STRING decode len %d" % ln)
    if der.enc_null() != asn1.DerNull().encode():
        mismatch(sec, "NULL")
    for v in (True, False):
        if der.enc_bool(v) != asn1.DerBoolean(v).encode():
            mismatch(sec, "BOOLEAN")
    # tagging
    for tag in (0, 1, 5, 30):
        count('der primitives compared', 4)
        if der.enc_tagged(tag, der.enc_int(77)) != \
                asn1.DerInteger(77, explicit=tag).encode():
            mismatch(sec, "explicit tag %d" % tag)
        if der.enc_tagged(tag, der.enc_int(77), explicit=False) != \
                asn1.DerInteger(77, implicit=tag).encode():
            mismatch(sec, "implicit tag %d" % tag)
        if der.enc_tagged(tag, der.enc_seq([der.enc_int(1)]),
                          explicit=False) != \
                asn1.DerSequence([1], implicit=tag).encode():
            mismatch(sec, "implicit constructed tag %d" % tag)
        if der.enc_tagged(tag, der.enc_oid('1.2.3')) != \
                asn1.DerObjectId('1.2.3', explicit=tag).encode():
            mismatch(sec, "explicit OID tag %d" % tag)

    # nested sequences / sets
    def rand_tree(depth):
        kind = RND.randrange(7 if depth < 4 else 5)
        if kind == 0:
            v = rand_int()
            return der.enc_int(v), asn1.DerInteger(v)
        if kind == 1:
            o = rand_oid()
            return der.enc_oid(o), asn1.DerObjectId(o)
        if kind == 2:
            b = bytes(RND.getrandbits(8) for _ in range(RND.randrange(200)))
            return der.enc_octets(b), asn1.DerOctetString(b)
        if kind == 3:
            b = bytes(RND.getrandbits(8) for _ in range(RND.randrange(200)))
            return der.enc_bitstring(b), asn1.DerBitString(b)
        if kind == 4:
            return der.enc_null(), asn1.DerNull()
        items = [rand_tree(depth + 1) for _ in range(RND.randrange(0, 6))]
        if kind == 5:
            return der.enc_seq([i[0] for i in items]), \
                asn1.DerSequence([i[1] for i in items])
        # SET OF needs a single element type: integers
        vals = [rand_int() for _ in range(RND.randrange(0, 8))]
        return der.enc_set_of([der.enc_int(v) for v in vals]), \
            asn1.DerSetOf(vals)

    for _ in range(n // 10):
        mine, libobj = rand_tree(0)
        lib = libobj.encode()
        count('der trees compared')
        if mine != lib:
            mismatch(sec, "tree: %s vs %s" % (mine.hex()[:80], lib.hex()[:80]))
            continue
        if der.strict_problems(lib) != [] or \
                der.reencode(der.parse(lib)) != lib:
            mismatch(sec, "tree not strict: %s" % lib.hex()[:80])
    # SET OF with byte strings of different length (padding comparison rule)
    for _ in range(50):
        elems = [der.enc_octets(bytes(RND.getrandbits(8)
                                      for _ in range(RND.randrange(0, 4))))
                 for _ in range(RND.randrange(1, 6))]
        elems = list(set(elems))
        lib = asn1.DerSetOf(elems).encode()
        count('der trees compared')
        if der.enc_set_of(elems) != lib:
            deviation('asn1-setof-order',
                      "DerSetOf sorts elements with Python's bytes order; "
                      "X.690 11.6 pads the shorter encoding with zero octets "
                      "(differs only when one element is a prefix of another "
                      "followed by 0x00 bytes): e.g. %s vs %s" %
                      (lib.hex(), der.enc_set_of(elems).hex()))

    # strictness: malformed / non canonical inputs, outermost TLV
    cases = [
        ('indefinite length', bytes.fromhex('30800201000000'), 'indefinite'),
        ('long form < 128', bytes.fromhex('308103020100'), 'nonminimal_length'),
        ('length leading zero', bytes.fromhex('30820003020100'),
         'nonminimal_length'),
        ('trailing byte', bytes.fromhex('300302010000'), 'trailing'),
        ('truncated', bytes.fromhex('3003020100')[:-1], 'truncated'),
        ('empty', b'', 'empty'),
        ('length 0xff', bytes.fromhex('30ff'), 'other'),
    ]
    for label, blob, want_class in cases:
        count('strictness cases')
        got = der.classify_toplevel(blob)
        if got != want_class:
            mismatch(sec, "classify_toplevel(%s) = %s" % (label, got))
        for strict in (False, True):
            try:
                asn1.DerSequence().decode(blob, strict=strict)
                lib = 'accepted'
            except ValueError:
                lib = 'ValueError'
            except Exception as e:
                lib = type(e).__name__
            if lib == 'accepted':
                deviation('asn1-accepts-' + label,
                          "DerSequence().decode(strict=%s) accepts %s (%s)" %
                          (strict, label, blob.hex()))
            elif lib != 'ValueError':
                deviation('asn1-raises-' + label,
                          "DerSequence().decode(%s) [%s] raises %s instead "
                          "of ValueError" % (blob.hex(), label, lib))
    inner_cases = [
        ('INTEGER redundant 00', '02020001', asn1.DerInteger),
        ('INTEGER redundant ff', '0202ff80', asn1.DerInteger),
        ('INTEGER empty', '0200', asn1.DerInteger),
        ('BOOLEAN 01', '010101', asn1.DerBoolean),
        ('BIT STRING unused 8', '03020800', asn1.DerBitString),
        ('BIT STRING unused bits non zero', '030201ff', asn1.DerBitString),
        ('BIT STRING empty content', '0300', asn1.DerBitString),
        ('OID leading 0x80 arc', '06038001 02'.replace(' ', ''),
         asn1.DerObjectId),
        ('OID truncated arc', '06022a80', asn1.DerObjectId),
        ('OID empty', '0600', asn1.DerObjectId),
        ('SET OF unsorted', '3106020102020101', asn1.DerSetOf),
        ('SEQUENCE with nested non-minimal INTEGER', '300402020001',
         asn1.DerSequence),
        ('SEQUENCE with nested indefinite', '30053080020100'[:0] +
         '3007308002010000 00'.replace(' ', ''), asn1.DerSequence),
    ]
    for label, hx, cls in inner_cases:
        blob = bytes.fromhex(hx)
        count('strictness cases')
        if der.strict_problems(blob) == []:
            mismatch(sec, "model accepts " + label)
        for strict in (True,):
            try:
                cls().decode(blob, strict=strict)
                lib = 'accepted'
            except ValueError:
                lib = 'ValueError'
            except Exception as e:
                lib = type(e).__name__
            if lib == 'accepted':
                deviation('asn1-strict-accepts-' + label,
                          "%s().decode(strict=True) accepts non-DER input: "
                          "%s (%s)" % (cls.__name__, label, hx))
            elif lib != 'ValueError':
                deviation('asn1-strict-raises-' + label,
                          "%s().decode(%s) [%s] raises %s" %
                          (cls.__name__, hx, label, lib))


# ---------------------------------------------------------------------------
# 4. padding and RFC 1751
# ---------------------------------------------------------------------------

def section4():
    sec = '4'
    sizes = range(1, 256) if not QUICK else list(range(1, 20)) + [64, 255]
    for style in rpad.STYLES:
        for bs in sizes:
            for ln in range(0, 2 * bs + 1):
                data = bytes((ln * 31 + i * 7) & 0xFF for i in range(ln))
                count('pad cases')
                mine = rpad.pad(data, bs, style)
                lib = Padding.pad(data, bs, style)
                if mine != lib:
                    mismatch(sec, "pad(%d bytes, %d, %s)" % (ln, bs, style))
                    break
                if ln % 7 == 0 or ln >= 2 * bs - 1:
                    if Padding.unpad(mine, bs, style) != data or \
                            rpad.unpad(lib, bs, style) != data:
                        mismatch(sec, "unpad(pad()) %d %d %s" %
                                 (ln, bs, style))
    # unpad on random and mutated inputs: accept / reject agreement
    for style in rpad.STYLES:
        for _ in range(2000 if QUICK else 20000):
            bs = RND.choice([1, 2, 3, 4, 7, 8, 16, 17, 32, 255])
            mode = RND.randrange(4)
            if mode == 0:
                ln = RND.randrange(0, 3 * bs + 1)
                blob = bytes(RND.choice([0, 0, 1, 2, 3, bs, 0x80,
                                         RND.getrandbits(8)])
                             for _ in range(ln))
            else:
                data = bytes(RND.choice([0, 0x80, 1, bs & 0xFF,
                                         RND.getrandbits(8)])
                             for _ in range(RND.randrange(0, 2 * bs + 1)))
                blob = bytearray(rpad.pad(data, bs, style))
                if mode >= 2:
                    pos = len(blob) - 1 - RND.randrange(min(len(blob),
                                                            bs + 2))
                    blob[pos] = RND.choice([0, 1, 0x80, blob[pos] ^ 1,
                                            RND.getrandbits(8), bs & 0xFF,
                                            (bs + 1) & 0xFF])
                if mode == 3 and RND.randrange(2):
                    blob = blob[:-RND.randrange(1, 3)]
                blob = bytes(blob)
            count('unpad cases')
            try:
                mine = rpad.unpad(blob, bs, style)
            except ValueError:
                mine = ValueError
            try:
                lib = Padding.unpad(blob, bs, style)
            except ValueError:
                lib = ValueError
            if mine != lib:
                mismatch(sec, "unpad(%s, %d, %s): model %r library %r" %
                         (blob.hex(), bs, style, mine, lib))
    # domain edges
    for style in ('pkcs7', 'x923'):
        try:
            out = Padding.pad(b'x' * 10, 256, style)
            deviation('padding-bs256-' + style,
                      "Padding.pad(10 bytes, 256, %r) succeeds (%d bytes "
                      "out) although a pad length must fit one octet for the "
                      "style; pad(b'', 256, %r) raises ValueError.  The model "
                      "restricts block_size to 1..255 for this style." %
                      (style, len(out), style))
        except ValueError:
            pass
    for bs in (0, -1):
        for fn, arg in ((Padding.pad, b'abc'), (Padding.unpad, b'abc\x01')):
            try:
                r = fn(arg, bs)
                deviation('padding-bs%d-%s' % (bs, fn.__name__),
                          "Padding.%s(..., block_size=%d) returns %r instead "
                          "of raising ValueError" % (fn.__name__, bs, r))
            except ValueError:
                pass
            except Exception as e:
                deviation('padding-bs%d-%s' % (bs, fn.__name__),
                          "Padding.%s(..., block_size=%d) raises %s "
                          "(not ValueError)" %
                          (fn.__name__, bs, type(e).__name__))
    # RFC 1751
    for _ in range(300 if QUICK else 3000):
        key = bytes(RND.getrandbits(8) for _ in range(8 * RND.randrange(0, 4)))
        count('rfc1751 cases')
        eng = rpad.key_to_english(key)
        if eng != RFC1751.key_to_english(key):
            mismatch(sec, "key_to_english(%s)" % key.hex())
        if RFC1751.english_to_key(eng) != key or \
                rpad.english_to_key(eng.lower()) != key:
            mismatch(sec, "english_to_key(%r)" % eng)
        # mutate one word: agreement on accept / reject
        words = eng.split()
        if words:
            words[RND.randrange(len(words))] = RND.choice(rpad.WORDLIST)
            txt = " ".join(words)
            try:
                mine = rpad.english_to_key(txt)
            except ValueError:
                mine = ValueError
            try:
                lib = RFC1751.english_to_key(txt)
            except ValueError:
                lib = ValueError
            if mine != lib:
                mismatch(sec, "english_to_key(%r): %r vs %r" %
                         (txt, mine, lib))
    # word count not a multiple of 6
    accepted = 0
    for _ in range(200):
        words = [RND.choice(rpad.WORDLIST) for _ in range(RND.randrange(1, 6))]
        try:
            RFC1751.english_to_key(" ".join(words))
            accepted += 1
        except ValueError:
            pass
        except Exception as e:
            deviation('rfc1751-short-exc',
                      "english_to_key with %d words raises %s" %
                      (len(words), type(e).__name__))
    if accepted:
        deviation('rfc1751-short',
                  "RFC1751.english_to_key accepts %d of 200 random inputs "
                  "with 1..5 words (missing words are treated as zero bits; "
                  "only the 2 parity bits protect) although the number of "
                  "words must be a multiple of 6; the model raises "
                  "ValueError" % accepted)
    try:
        RFC1751.key_to_english(b'1234567')
        mismatch(sec, "key_to_english(7 bytes) accepted by the library")
    except ValueError:
        pass


# ---------------------------------------------------------------------------
# 5. probes: where specification and library are expected to differ
# ---------------------------------------------------------------------------

def outcome(fn, *a, **kw):
    try:
        return ('ok', fn(*a, **kw))
    except ValueError as e:
        return ('ValueError', str(e))
    except Exception as e:
        return (type(e).__name__, str(e))


def probe(ident, text, blob, module, passphrase=None, model_fn=None,
          expect_model='ValueError', **kw):
    """Feed blob to model and library.  The model must behave as
    `expect_model` ('ValueError' or 'ok'); if the library behaves differently
    the difference is recorded as a deviation with a reproducer."""
    count('probes')
    model_fn = model_fn or (lambda b, p: kf.parse_any(b, p))
    m = outcome(model_fn, blob, passphrase)
    if m[0] != expect_model:
        mismatch('5', "probe %s: model outcome %r (expected %s)" %
                 (ident, m, expect_model))
        return
    if kw:
        lib = outcome(module.import_key, blob, passphrase, **kw)
    else:
        lib = outcome(module.import_key, blob, passphrase)
    if lib[0] != m[0]:
        shown = blob if isinstance(blob, str) else \
            ("bytes.fromhex(%r)" % blob.hex() if len(blob) <= 400 else
             "<%d bytes, see devcheck section 5 %s>" % (len(blob), ident))
        deviation(ident, "%s\n      model: %s; library %s.import_key -> %s%s"
                  "\n      input: %s" %
                  (text, m[0], module.__name__.split('.')[-1], lib[0],
                   "" if lib[0] == 'ok' else " (%s)" % lib[1][:80], shown))
    else:
        log("  probe %s: library agrees (%s)" % (ident, lib[0]))


def section5():
    c256 = kf.CURVES['NIST P-256']
    d = RND.randrange(1, c256.n)
    x, y = kf.ec_public_from_private(c256, d)
    ek = {'type': 'ECC', 'curve': 'NIST P-256', 'private': True, 'd': d,
          'x': x, 'y': y}
    rk = model_rsa_key(1024)

    # -- DER container level ------------------------------------------------
    good = kf.rsa_pkcs1_private_der(rk)
    probe('der-trailing', "RSAPrivateKey followed by one extra byte",
          good + b'\x00', RSA)
    body = good[4:]
    probe('der-indefinite', "outer SEQUENCE in indefinite-length form (BER)",
          b'\x30\x80' + body + b'\x00\x00', RSA)
    probe('der-0x80-only', "length octet 0x80 with nothing after it",
          b'\x30\x80', RSA)
    probe('der-nonminimal-length', "outer length with a leading zero octet",
          b'\x30\x83\x00' + good[2:4] + body, RSA)
    nm = der.enc_seq([b'\x02\x04\x00\x01\x00\x01' if i == 2 else
                      der.enc_int(v) for i, v in enumerate(
                          (0, rk['n'], rk['e'], rk['d'], rk['p'], rk['q'],
                           rk['dp'], rk['dq'], rk['qinv']))])
    probe('der-nonminimal-integer', "RSAPrivateKey whose publicExponent is "
          "encoded as 02 04 00 01 00 01 (redundant leading zero)", nm, RSA)
    pub_nm = der.enc_seq([der.enc_seq([der.enc_oid(kf.OID_RSA),
                                       der.enc_null()]),
                          b'\x03' + der.enc_len(len(
                              kf.rsa_pkcs1_public_der(rk)) + 1) + b'\x07' +
                          kf.rsa_pkcs1_public_der(rk)])
    probe('spki-bitstring-unused', "SubjectPublicKeyInfo whose BIT STRING "
          "declares 7 unused bits", pub_nm, RSA)
    bad_crt = dict(rk, dp=rk['dp'] + 2, dq=1, qinv=5)
    probe('rsa-wrong-crt', "RSAPrivateKey with wrong exponent1 / exponent2 / "
          "coefficient (the model parses the numbers and reports them with "
          "rsa_consistency_problems; the library silently recomputes them)",
          kf.rsa_pkcs1_private_der(bad_crt), RSA, expect_model='ok')
    if not kf.rsa_consistency_problems(bad_crt):
        mismatch('5', "rsa_consistency_problems missed wrong CRT values")

    # -- PKCS#8 ------------------------------------------------------------------
    p8 = kf.ec_pkcs8_der(ek)
    probe('pkcs8-clear-with-passphrase', "clear PKCS#8 DER imported with a "
          "passphrase (ECC.import_key documents: 'This parameter is ignored "
          "if the key in input is not encrypted')", p8, ECC, b'unused',
          expect_model='ok')
    probe('pkcs8-clear-with-passphrase-rsa', "clear PKCS#8 DER (RSA) imported "
          "with a passphrase", kf.rsa_pkcs8_der(rk), RSA, b'unused',
          expect_model='ok')
    c384 = kf.CURVES['NIST P-384']
    inner = kf.ec_sec1_private_der(ek, include_params=True)
    mism = kf.pkcs8_wrap(kf.OID_EC_PUBLIC_KEY, inner, der.enc_oid(c384.oid))
    probe('pkcs8-ec-curve-mismatch', "PKCS#8 whose AlgorithmIdentifier names "
          "P-384 while the inner ECPrivateKey [0] parameters name P-256",
          mism, ECC)
    other = dict(ek)
    other['x'], other['y'] = kf.ec_public_from_private(c256, d ^ 1)
    wrong_pub = der.enc_seq([
        der.enc_int(1), der.enc_octets(kf._i2osp(d, 32)),
        der.enc_tagged(0, der.enc_oid(c256.oid)),
        der.enc_tagged(1, der.enc_bitstring(kf.ec_sec1_point(other)))])
    probe('ecprivatekey-public-mismatch', "ECPrivateKey whose publicKey is "
          "not d*G", wrong_pub, ECC)
    short = der.enc_seq([der.enc_int(1), der.enc_octets(b'\x05'),
                         der.enc_tagged(0, der.enc_oid(c256.oid))])
    probe('ecprivatekey-short-scalar', "ECPrivateKey with a 1-octet "
          "privateKey (RFC 5915: ceil(log2(n)/8) octets)", short, ECC)
    seed = bytes(range(32))
    edk = kf.parse_raw_private(seed, 'Ed25519')
    ed_null = kf.pkcs8_wrap('1.3.101.112', der.enc_octets(seed),
                            der.enc_null())
    probe('pkcs8-ed25519-null-params', "Ed25519 PrivateKeyInfo with NULL "
          "parameters (RFC 8410 section 3: MUST be absent)", ed_null, ECC)
    probe('spki-ed25519-null-params', "Ed25519 SubjectPublicKeyInfo with NULL "
          "parameters (RFC 8410 section 3: MUST be absent)",
          kf._spki('1.3.101.112', der.enc_null(), kf.ec_raw_public(edk)), ECC)
    otherpub = kf.parse_raw_private(bytes(range(1, 33)), 'Ed25519')
    v2_bad = kf.pkcs8_wrap('1.3.101.112', der.enc_octets(seed), None,
                           version=1,
                           public_key=kf.ec_raw_public(otherpub))
    probe('pkcs8-v2-public-mismatch', "OneAsymmetricKey (v2) whose publicKey "
          "does not belong to the private key", v2_bad, ECC)
    v0_pub = der.enc_seq([der.enc_int(0),
                          der.enc_seq([der.enc_oid('1.3.101.112')]),
                          der.enc_octets(der.enc_octets(seed)),
                          der.enc_tagged(1, der.enc_bitstring(
                              kf.ec_raw_public(edk)), explicit=False)])
    probe('pkcs8-v1-with-public', "PrivateKeyInfo version 0 carrying the "
          "v2-only [1] publicKey field", v0_pub, ECC)
    rsa_absent = kf.pkcs8_wrap(kf.OID_RSA, kf.rsa_pkcs1_private_der(rk), None)
    probe('pkcs8-rsa-absent-params', "RSA PrivateKeyInfo without the NULL "
          "parameters (accepted by the model with a note)", rsa_absent, RSA,
          expect_model='ok')
    # PBES1 with a 9 byte salt
    dk = kf._pbkdf1(PW, b'123456789', 7, 'sha1', 16)
    ct = kf._cbc_pad_encrypt('DES', dk[:8], dk[8:], kf.rsa_pkcs8_der(rk))
    pbes1_9 = der.enc_seq([
        der.enc_seq([der.enc_oid('1.2.840.113549.1.5.10'),
                     der.enc_seq([der.enc_octets(b'123456789'),
                                  der.enc_int(7)])]),
        der.enc_octets(ct)])
    probe('pbes1-salt-9', "PBES1 PBEParameter with a 9-octet salt (RFC 8018 "
          "A.3: OCTET STRING (SIZE(8)))", pbes1_9, RSA, PW)
    gcm_rfc = kf.pkcs8_encrypt(p8, PW, cipher='aes128-gcm', iterations=3,
                               gcm_params='rfc5084')
    probe('pbes2-gcm-rfc5084', "PBES2 with AES-GCM whose parameters are the "
          "GCMParameters SEQUENCE {nonce, ICVlen 16} of RFC 5084 (the library "
          "only understands its own bare-nonce form)", gcm_rfc, ECC, PW,
          expect_model='ok')
    zero_iter = kf.pkcs8_encrypt(p8, PW, iterations=1)
    zero_iter = zero_iter.replace(der.enc_int(1) + b'\x30',
                                  der.enc_int(0) + b'\x30', 1)
    probe('pbes2-zero-iterations', "PBKDF2 iterationCount 0 (INTEGER "
          "(1..MAX))", zero_iter, ECC, PW)

    # -- points --------------------------------------------------------------
    c521 = kf.CURVES['NIST P-521']
    gx, gy = kf.ec_public_from_private(c521, 3)
    nonred = b'\x04' + kf._i2osp(gx + c521.p, 66) + kf._i2osp(gy, 66)
    probe('sec1-unreduced-x', "SEC1 uncompressed P-521 point whose x is "
          "x0 + p (still fits 66 octets)", nonred, ECC,
          model_fn=lambda b, p: kf.parse_raw_public(b, 'NIST P-521'),
          curve_name='p521')
    nonred_c = bytes([2 + (gy & 1)]) + kf._i2osp(gx + c521.p, 66)
    probe('sec1-unreduced-x-compressed', "SEC1 compressed P-521 point whose "
          "x is x0 + p", nonred_c, ECC,
          model_fn=lambda b, p: kf.parse_raw_public(b, 'NIST P-521'),
          curve_name='p521')
    probe('sec1-infinity', "SEC1 point at infinity (single 00 octet) as a "
          "public key", b'\x00', ECC,
          model_fn=lambda b, p: kf.parse_raw_public(b, 'NIST P-256'),
          curve_name='p256')
    hybrid = bytes([6 + (y & 1)]) + kf.ec_sec1_point(ek)[1:]
    probe('sec1-hybrid', "X9.62 hybrid point form (06/07)", hybrid, ECC,
          model_fn=lambda b, p: kf.parse_raw_public(b, 'NIST P-256'),
          curve_name='p256')
    ed448 = kf.parse_raw_private(bytes(range(57)), 'Ed448')
    raw448 = bytearray(kf.ec_raw_public(ed448))
    raw448[56] |= 0x01
    probe('ed448-noncanonical-last-octet', "Ed448 public key whose last "
          "octet has one of the low 7 bits set (RFC 8032 5.2.3: y >= p, "
          "decoding fails)",
          kf._spki('1.3.101.113', None, bytes(raw448)), ECC)
    ed_x0 = b'\x01' + bytes(30) + b'\x80'
    probe('ed25519-x0-signbit', "Ed25519 public key y = 1 with the sign bit "
          "set (RFC 8032 5.1.3 step 4: x = 0 and x_0 = 1, decoding fails)",
          kf._spki('1.3.101.112', None, ed_x0), ECC)
    noncanon_y = (kf._P25519 + 1).to_bytes(32, 'little')
    probe('ed25519-y-ge-p', "Ed25519 public key with y = p + 1 "
          "(non-canonical)", kf._spki('1.3.101.112', None, noncanon_y), ECC)

    # X25519 / X448 non-canonical u-coordinates (RFC 7748 section 5: accept
    # and reduce modulo p; X25519 additionally masks bit 255)
    for cname, oid, u_raw in (
            ('Curve25519', '1.3.101.110',
             (kf._P25519 + 9).to_bytes(32, 'little')),
            ('Curve25519', '1.3.101.110',
             ((1 << 255) | 9).to_bytes(32, 'little')),
            ('Curve448', '1.3.101.111', (kf._P448 + 5).to_bytes(56, 'little'))):
        count('probes')
        blob = kf._spki(oid, None, u_raw)
        m = kf.parse_spki(blob)
        lib = outcome(ECC.import_key, blob)
        if lib[0] != 'ok':
            deviation('xdh-noncanonical-' + cname + u_raw[-1:].hex(),
                      "%s public key with non-canonical u (%s...): model x=%d "
                      "(notes %r); library raises %s: %s" %
                      (cname, u_raw.hex()[:16], m['x'], m.get('_notes'),
                       lib[0], lib[1]))
        elif int(lib[1].pointQ.x) != m['x']:
            deviation('xdh-noncanonical-' + cname + u_raw[-1:].hex(),
                      "%s public key with non-canonical u (%s): model x=%d, "
                      "library x=%d (not reduced modulo p)" %
                      (cname, u_raw.hex(), m['x'], int(lib[1].pointQ.x)))

    # -- PEM ---------------------------------------------------------------------
    pem = kf.pem_encode(kf.rsa_spki_der(rk), 'PUBLIC KEY')
    probe('pem-label-mismatch', "PEM with BEGIN PUBLIC KEY / END PRIVATE KEY",
          pem.replace('END PUBLIC', 'END PRIVATE'), RSA)
    probe('pem-junk-after', "PEM followed by non-whitespace text",
          pem + "\ntrailing text", RSA)
    probe('pem-junk-in-base64', "PEM with characters outside the base64 "
          "alphabet inside the body", pem.replace("\n", "\n!*!", 2), RSA)
    probe('pem-wrong-label', "RSA SubjectPublicKeyInfo under the label "
          "'EC PRIVATE KEY' (model: accepted with a note)",
          pem.replace('PUBLIC KEY', 'EC PRIVATE KEY'), RSA,
          expect_model='ok')
    enc_pem = kf.pem_encode(good, 'RSA PRIVATE KEY', PW, 'AES-128-CBC')
    probe('pem-dek-short-iv', "DEK-Info AES-128-CBC with an 8 byte IV",
          enc_pem.replace(enc_pem.split('AES-128-CBC,')[1][:32],
                          enc_pem.split('AES-128-CBC,')[1][:16]), RSA, PW)
    probe('pem-encrypted-no-passphrase', "encrypted PEM, no passphrase",
          enc_pem, RSA)

    # -- OpenSSH -------------------------------------------------------------
    line = kf.openssh_public_encode(rk)
    blob = base64.b64decode(line.split()[1])
    probe('ssh-public-trailing', "ssh-rsa line whose blob has 4 extra "
          "bytes", 'ssh-rsa ' + base64.b64encode(blob + bytes(4)).decode(),
          RSA)
    dss_in_rsa = 'ssh-rsa ' + kf.openssh_public_encode(
        {'type': 'DSA', 'p': 23, 'q': 11, 'g': 4, 'y': 8}).split()[1]
    probe('ssh-public-type-mismatch', "line says ssh-rsa, blob says ssh-dss",
          dss_in_rsa, RSA)
    probe('ssh-public-truncated-ecdsa', "ecdsa-sha2-nistp256 line with a "
          "3-byte blob", "ecdsa-sha2-nistp256 AAAA", ECC)
    cont = kf.openssh_private_encode(ek, b'c', pem=False)

    def as_pem(b):
        return kf.pem_encode(b, 'OPENSSH PRIVATE KEY', trailing_newline=True)
    k2 = dict(ek)
    k2['d'] = d ^ 2
    k2['x'], k2['y'] = kf.ec_public_from_private(c256, k2['d'])
    pub2 = kf._ssh_public_blob(k2)
    pub1 = kf._ssh_public_blob(ek)
    swapped = cont.replace(kf._ssh_string(pub1), kf._ssh_string(pub2), 1)
    probe('ssh-private-public-section-mismatch', "openssh-key-v1 whose "
          "public section holds a different key than the private section",
          as_pem(swapped), ECC)
    badpad = cont[:-1] + bytes([cont[-1] ^ 0x40])
    probe('ssh-private-bad-padding', "openssh-key-v1 with a wrong padding "
          "byte", as_pem(badpad), ECC)
    off = cont.rindex(b'\x01\x02\x03\x04\x01\x02\x03\x04')
    badcheck = cont[:off + 7] + b'\x05' + cont[off + 8:]
    probe('ssh-private-checkint', "openssh-key-v1 with different check "
          "integers", as_pem(badcheck), ECC)
    two = cont.replace(b'\x00\x00\x00\x01' + kf._ssh_string(pub1),
                       b'\x00\x00\x00\x02' + kf._ssh_string(pub1), 1)
    probe('ssh-private-two-keys', "openssh-key-v1 announcing 2 keys",
          as_pem(two), ECC)

    # -- export side subtleties (no model/library disagreement on import) ----
    key = RSA.construct((rk['n'], rk['e'], rk['d'], rk['p'], rk['q']))
    out = key.export_key(format='PEM', pkcs=8,
                         protection='PBKDF2WithHMAC-SHA256AndAES128-CBC')
    got = kf.parse_any(out)
    count('probes')
    if b'ENCRYPTED PRIVATE KEY' in out and \
            'EncryptedPrivateKeyInfo' not in got['_format']:
        deviation('rsa-export-mislabelled',
                  "RsaKey.export_key(format='PEM', pkcs=8, protection=<any>) "
                  "WITHOUT passphrase returns a PEM labelled 'ENCRYPTED "
                  "PRIVATE KEY' that contains a CLEAR PrivateKeyInfo (RFC "
                  "7468 section 11: that label is for "
                  "EncryptedPrivateKeyInfo).  Model notes: %r" %
                  got.get('_notes'))
    ekey = ECC.construct(curve='p256', d=d)
    s = ekey.public_key().export_key(format='OpenSSH')
    r = key.public_key().export_key(format='OpenSSH')
    count('probes')
    if s.endswith('\n') and not r.endswith(b'\n'):
        deviation('ecc-openssh-newline',
                  "EccKey.export_key(format='OpenSSH') returns str ending in "
                  "'\\n' (b2a_base64 newline kept); RsaKey / DsaKey return "
                  "bytes without newline")
    blob = ekey.export_key(format='DER', passphrase=PW,
                           protection='PBKDF2WithHMAC-SHA256AndAES128-GCM',
                           prot_params={'iteration_count': 3})
    notes = kf.parse_any(blob, PW).get('_notes', [])
    count('probes')
    if any('NULL' in n for n in notes):
        deviation('pbes2-prf-no-null',
                  "PBES2.encrypt writes the PBKDF2 prf AlgorithmIdentifier "
                  "without parameters; RFC 8018 A.2/B.1.1 define them as NULL "
                  "(OpenSSL writes NULL).  Harmless for interoperability.")
    if any('RFC 5084' in n for n in notes):
        deviation('pbes2-gcm-params',
                  "PBES2.encrypt with AES-GCM writes the encryption scheme "
                  "parameters as a bare OCTET STRING (12 byte nonce) and "
                  "appends a 16 byte tag; RFC 5084 3.2 defines GCMParameters "
                  "::= SEQUENCE { aes-nonce OCTET STRING, aes-ICVlen INTEGER "
                  "DEFAULT 12 } (library-private format)")
    for c in ('p192', 'p224'):
        s = ECC.generate(curve=c).public_key().export_key(format='OpenSSH')
        count('probes')
        if s.startswith('ecdsa-sha2-nistp'):
            deviation('ssh-nistp192-224-names',
                      "EccKey.export_key(format='OpenSSH') names P-192/P-224 "
                      "'ecdsa-sha2-nistp192/224'; RFC 5656 6.1 / 10.1 only "
                      "defines the names nistp256/384/521 and identifies "
                      "other curves by OID ('ecdsa-sha2-1.3.132.0.33'); "
                      "OpenSSH itself does not support these curves")


# ---------------------------------------------------------------------------
# 6. mutation fuzzing: the model only ever raises ValueError; where the model
#    accepts a mutated input the library must produce the same numbers or the
#    difference must be explainable
# ---------------------------------------------------------------------------

def lib_numbers(blob, passphrase, curve=None):
    last = None
    for module, numbers in ((RSA, rsa_numbers), (DSA, dsa_numbers),
                            (ECC, lambda k: ecc_numbers(k, None))):
        try:
            if module is ECC and curve is not None:
                key = module.import_key(blob, passphrase, curve_name=curve)
            else:
                key = module.import_key(blob, passphrase)
            return numbers(key)
        except Exception as e:
            last = e
    return last


def section6():
    sec = '6'
    rk = model_rsa_key(1024)
    c256 = kf.CURVES['NIST P-256']
    d = RND.randrange(1, c256.n)
    x, y = kf.ec_public_from_private(c256, d)
    ek = {'type': 'ECC', 'curve': 'NIST P-256', 'private': True, 'd': d,
          'x': x, 'y': y}
    edk = kf.parse_raw_private(bytes(range(32)), 'Ed25519')
    p, q, g = DSA_DOMAINS[1024]
    dk = {'type': 'DSA', 'private': True, 'p': p, 'q': q, 'g': g,
          'y': pow(g, 77, p), 'x': 77}
    p8e = kf.pkcs8_encrypt(kf.ec_pkcs8_der(ek), PW, prf='sha256',
                           cipher='aes128-cbc', iterations=2)
    seeds = [
        ('rsa pkcs1', kf.rsa_pkcs1_private_der(rk), None),
        ('rsa spki', kf.rsa_spki_der(rk), None),
        ('rsa pkcs8', kf.rsa_pkcs8_der(rk), None),
        ('dsa trad', kf.dsa_traditional_private_der(dk), None),
        ('dsa spki', kf.dsa_spki_der(dk), None),
        ('ec sec1', kf.ec_sec1_private_der(ek), None),
        ('ec pkcs8', kf.ec_pkcs8_der(ek), None),
        ('ec spki', kf.ec_spki_der(ek), None),
        ('ec spki comp', kf.ec_spki_der(ek, True), None),
        ('ed25519 pkcs8', kf.ec_pkcs8_der(edk), None),
        ('ed25519 pkcs8 v2', kf.ec_pkcs8_der(edk, v2_public=True), None),
        ('ed25519 spki', kf.ec_spki_der(edk), None),
        ('ec pkcs8 encrypted', p8e, PW),
        ('ec pem', kf.pem_encode(kf.ec_sec1_private_der(ek),
                                 'EC PRIVATE KEY').encode(), None),
        ('ec pem enc', kf.pem_encode(kf.ec_sec1_private_der(ek),
                                     'EC PRIVATE KEY', PW,
                                     'AES-128-CBC').encode(), PW),
        ('ssh pub rsa', kf.openssh_public_encode(rk).encode(), None),
        ('ssh pub ec', kf.openssh_public_encode(ek).encode(), None),
        ('ssh pub ed', kf.openssh_public_encode(edk).encode(), None),
        ('ssh priv ec', kf.openssh_private_encode(ek, b'c').encode(), None),
        ('ssh priv ed', kf.openssh_private_encode(edk, b'c').encode(), None),
        ('ssh priv rsa', kf.openssh_private_encode(rk, b'c').encode(), None),
    ]
    rounds = 60 if QUICK else 400
    model_only = {}
    for label, blob, pw in seeds:
        for _ in range(rounds):
            b = bytearray(blob)
            op = RND.randrange(5)
            if op == 0:
                b[RND.randrange(len(b))] ^= 1 << RND.randrange(8)
            elif op == 1:
                b[RND.randrange(len(b))] = RND.choice([0, 0x80, 0xFF, 0x30,
                                                       0x02, 0x04])
            elif op == 2:
                del b[RND.randrange(len(b))]
            elif op == 3:
                b.insert(RND.randrange(len(b) + 1), RND.getrandbits(8))
            else:
                i = RND.randrange(len(b))
                b[i:i + RND.randrange(1, 5)] = b''
            b = bytes(b)
            count('mutations')
            try:
                got = kf.parse_any(b, pw)
            except ValueError:
                continue
            except Exception as e:
                mismatch(sec, "model raised %s on mutated %s: %s / input %s" %
                         (type(e).__name__, label, e, b.hex()
                          if b[:1] == b'\x30' else repr(b)))
                continue
            count('mutations accepted by the model')
            lib = lib_numbers(b, pw)
            if isinstance(lib, Exception):
                # explained when the numbers are arithmetically inconsistent:
                # the model only parses, the library also validates
                if got['type'] == 'RSA':
                    why = kf.rsa_consistency_problems(got)
                elif got['type'] == 'DSA':
                    why = kf.dsa_consistency_problems(got)
                else:
                    why = []
                if why:
                    count('mutations: valid encoding of inconsistent numbers')
                else:
                    model_only.setdefault(label, []).append((b, lib))
                continue
            want = kf.strip_meta(got)
            if lib.get('compressed', 0) is None:
                want['compressed'] = None
            if lib['type'] == 'RSA' and lib['private'] and \
                    'openssh' in got['_format']:
                lib = dict(lib, p=lib['q'], q=lib['p'], dp=lib['dq'],
                           dq=lib['dp'], qinv=want['qinv'])
            if lib['type'] == 'RSA' and lib['private'] and \
                    kf.rsa_consistency_problems(got):
                # the library recomputes the CRT values
                for k2 in ('dp', 'dq', 'qinv'):
                    want.pop(k2), lib.pop(k2)
            if lib != want:
                mismatch(sec, "mutated %s: numbers differ\n   model %r\n"
                         "   lib   %r" % (label, want, lib))
    for label, items in sorted(model_only.items()):
        b, e = items[0]
        mismatch(sec, "%d mutated '%s' inputs accepted by the model but "
                 "refused by the library without explanation, e.g. %s: %s\n"
                 "   input %r" %
                 (len(items), label, type(e).__name__, str(e)[:70], b))


# ---------------------------------------------------------------------------

def main():
    t0 = time.time()
    if ADAPTER:
        print("NOTE: ref.ciphers / ref.modes missing - using the library "
              "adapter (development only)")
    for name, fn in (('1 RSA exports', section1_rsa),
                     ('1 DSA exports', section1_dsa),
                     ('1 ECC exports', section1_ecc),
                     ('2 model blobs -> library', section2),
                     ('3 DER primitives', section3),
                     ('4 padding / RFC1751', section4),
                     ('5 probes', section5),
                     ('6 mutation fuzzing', section6)):
        if ONLY and name.split()[0] not in ONLY.split(','):
            continue
        t = time.time()
        before = len(MISMATCHES)
        fn()
        print("section %-26s %6.1f s  %d mismatches" %
              (name, time.time() - t, len(MISMATCHES) - before))
    print()
    print("COUNTS")
    for k in sorted(COUNTS):
        print("  %-48s %d" % (k, COUNTS[k]))
    print()
    print("EXPORT COMBINATIONS SEEN (%d distinct, protections collapsed)" %
          len(EXPORT_COMBOS))
    seen = set()
    for kind, desc in EXPORT_COMBOS:
        k2 = kind.split('[')[0].replace('-public', '') + \
            ('-public' if 'public' in kind else '')
        import re
        d2 = re.sub(r"protection='[^']*'", "protection=<P>", desc)
        if (k2, d2) not in seen:
            seen.add((k2, d2))
            print("  %-11s %s" % (k2, d2))
    print("  <P> = one of %d strings: PBKDF2WithHMAC-{%s}And{%s} and "
          "scryptAnd{...}" % (len(PROTECTIONS), ",".join(HASHES),
                              ",".join(CIPHERS)))
    print()
    print("ANALYSED LIBRARY DEVIATIONS (%d)" % len(DEVIATIONS))
    for ident, text in DEVIATIONS:
        print("  [%s] %s" % (ident, text))
    print()
    print("total %.1f s" % (time.time() - t0))
    print("MISMATCHES: %d" % len(MISMATCHES))
    return 1 if MISMATCHES else 0


if __name__ == '__main__':
    sys.exit(main())
