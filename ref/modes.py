"""Independent reference model of block-cipher modes, MACs and AEADs.

Pure Python, standard library only; never imports the library under test.
Written from the specifications:

  ECB/CBC/CFB/OFB/CTR   NIST SP 800-38A
  OpenPGP CFB           RFC 4880 section 13.9 (variant WITH the resync step)
  CMAC                  NIST SP 800-38B / RFC 4493
  CCM                   NIST SP 800-38C / RFC 3610
  GCM                   NIST SP 800-38D
  EAX                   Bellare, Rogaway, Wagner: "The EAX mode of operation"
  SIV                   RFC 5297
  OCB3                  RFC 7253
  KW / KWP              RFC 3394, RFC 5649, NIST SP 800-38F
  Poly1305              Bernstein, "The Poly1305-AES MAC"; RFC 8439 sec 2.5
  ChaCha20-Poly1305     RFC 8439 sec 2.8, draft-irtf-cfrg-xchacha (XChaCha)

Block cipher duck type
----------------------
Every function taking `c` accepts ANY object with

    c.block_size          int, bytes per block (8 or 16)
    c.encrypt_block(b)    bytes -> bytes, exactly one block
    c.decrypt_block(b)    bytes -> bytes, exactly one block

so the caller may pass a model cipher from ref.ciphers or a thin wrapper around
a single-block ECB primitive of some other implementation.

AEAD convention
---------------
X_seal(...) -> (ciphertext, tag)
X_open(...) -> (plaintext, expected_tag)     # NEVER compares tags

X_open returns the plaintext the mode defines for the received ciphertext and
the tag the specification defines for the *received* (key, nonce, aad, ct) at
the requested tag length.  The caller decides: accept iff expected_tag equals
the received tag.

Library/API notes (pycryptodome 3.x, found by reading its docs; this model
follows the specification and records where the API adds something):

* CFB: the library accepts data of any length ("It can be of any length"),
  also when it is not a multiple of the segment size.  The model extends
  SP 800-38A CFB-s in the only natural way: a final partial segment is XORed
  with the leading bytes of the output block for that segment.
* CTR: the counter field wraps modulo 2**(8*counter_len).  The library raises
  OverflowError only when MORE than 2**(8*counter_len) blocks of key stream
  would be consumed over the life of the object (i.e. when a counter block
  would repeat), NOT when the counter value passes through zero -- although
  the docstring of Crypto.Util.Counter.new says "An OverflowError exception
  is always raised when the counter wraps around to zero".  ctr_crypt()
  mirrors the implemented rule (see `allow_repeat`).
* OpenPGP: encrypt() of the library returns encrypted_IV (block_size+2 bytes)
  || ciphertext on the FIRST call; for decryption the `iv` argument is that
  block_size+2 byte prefix.  The attributes cipher.iv / cipher.IV hold the
  CLEAR iv (block_size bytes) in both directions.  The two "quick check"
  bytes are never verified.  The data part is CFB with full-block segments,
  IV = last block_size bytes of the encrypted-IV prefix (RFC 4880 resync).
* SIV (RFC 5297): S2V input vector = update() components in call order, then
  the nonce (if a nonce was given to new()), then the plaintext -- exactly the
  RFC 5297 section 3 convention (nonce = last AD component).  The components
  list passed to siv_seal/siv_open below must therefore already end with the
  nonce when one is used.  The library cannot express "zero components"
  (the plaintext is always the final S2V string, even when empty).
* ChaCha20-Poly1305 with an 8-byte nonce: the library applies the RFC 8439
  AEAD construction (padding + two 64-bit lengths) unchanged, but runs
  ChaCha20 in Bernstein's original layout (64-bit block counter, 64-bit
  nonce).  The one-time Poly1305 key is block 0, data starts at block 1.
  This equals RFC 8439 with the 96-bit nonce 00000000 || nonce8 for all
  messages shorter than 2**32 blocks.  It is NOT the AEAD of
  draft-agl-tls-chacha20poly1305-04 (which has no padding).
* Poly1305 (Crypto.Hash.Poly1305): with cipher=AES the 32-byte key is
  k || r (AES key first, then r) and s = AES_k(nonce16); with
  cipher=ChaCha20 (r, s) = first 32 bytes of ChaCha20 block 0 under the
  12-byte nonce (an 8-byte nonce is left-padded with 4 zero bytes).
"""

import struct

from . import ciphers as _ciphers

__all__ = [
    "ecb_encrypt", "ecb_decrypt", "cbc_encrypt", "cbc_decrypt",
    "cfb_encrypt", "cfb_decrypt", "ofb_crypt",
    "ctr_counter_blocks", "ctr_crypt",
    "openpgp_encrypt", "openpgp_decrypt", "openpgp_recover_iv",
    "cmac", "cmac_subkeys",
    "gcm_seal", "gcm_open", "ghash",
    "ccm_seal", "ccm_open",
    "eax_seal", "eax_open",
    "s2v", "siv_seal", "siv_open",
    "ocb_seal", "ocb_open",
    "poly1305", "poly1305_cipher_mac",
    "chacha20_poly1305_seal", "chacha20_poly1305_open",
    "kw_wrap", "kw_unwrap", "kwp_wrap", "kwp_unwrap",
    "kw_wrap_raw", "kw_unwrap_raw",
    "self_test",
]


# ---------------------------------------------------------------------------
# helpers
# ---------------------------------------------------------------------------

def _xor(a, b):
    n = len(a)
    if n != len(b):
        raise ValueError("length mismatch in xor")
    if n == 0:
        return b""
    return (int.from_bytes(a, "big") ^ int.from_bytes(b, "big")).to_bytes(n, "big")


def _xor_prefix(data, keystream):
    """data XOR the first len(data) bytes of keystream."""
    return _xor(data, keystream[:len(data)])


def _bs(c):
    bs = c.block_size
    if bs not in (8, 16):
        raise ValueError("unsupported block size %r" % (bs,))
    return bs


def _need_multiple(data, bs, what):
    if len(data) % bs:
        raise ValueError("%s length must be a multiple of the block size (%d)" % (what, bs))


# ---------------------------------------------------------------------------
# SP 800-38A confidentiality modes
# ---------------------------------------------------------------------------

def ecb_encrypt(c, pt):
    bs = _bs(c)
    pt = bytes(pt)
    _need_multiple(pt, bs, "ECB plaintext")
    return b"".join(c.encrypt_block(pt[i:i + bs]) for i in range(0, len(pt), bs))


def ecb_decrypt(c, ct):
    bs = _bs(c)
    ct = bytes(ct)
    _need_multiple(ct, bs, "ECB ciphertext")
    return b"".join(c.decrypt_block(ct[i:i + bs]) for i in range(0, len(ct), bs))


def cbc_encrypt(c, iv, pt):
    bs = _bs(c)
    iv = bytes(iv)
    pt = bytes(pt)
    if len(iv) != bs:
        raise ValueError("CBC IV must be one block long")
    _need_multiple(pt, bs, "CBC plaintext")
    out = []
    prev = iv
    for i in range(0, len(pt), bs):
        prev = c.encrypt_block(_xor(pt[i:i + bs], prev))
        out.append(prev)
    return b"".join(out)


def cbc_decrypt(c, iv, ct):
    bs = _bs(c)
    iv = bytes(iv)
    ct = bytes(ct)
    if len(iv) != bs:
        raise ValueError("CBC IV must be one block long")
    _need_multiple(ct, bs, "CBC ciphertext")
    out = []
    prev = iv
    for i in range(0, len(ct), bs):
        blk = ct[i:i + bs]
        out.append(_xor(c.decrypt_block(blk), prev))
        prev = blk
    return b"".join(out)


def _cfb(c, iv, data, segment_size_bits, decrypt):
    bs = _bs(c)
    iv = bytes(iv)
    data = bytes(data)
    if len(iv) != bs:
        raise ValueError("CFB IV must be one block long")
    if segment_size_bits % 8 or not 8 <= segment_size_bits <= 8 * bs:
        raise ValueError("CFB segment size must be a multiple of 8 in 8..%d bits" % (8 * bs))
    s = segment_size_bits // 8
    reg = iv                                # input block I_j
    out = []
    for i in range(0, len(data), s):
        seg = data[i:i + s]                 # the last one may be partial (see module doc)
        o = c.encrypt_block(reg)            # output block O_j
        res = _xor(seg, o[:len(seg)])       # MSB_s(O_j) xor segment
        out.append(res)
        cseg = seg if decrypt else res      # ciphertext segment feeds back
        reg = (reg + cseg)[-bs:]            # I_{j+1} = LSB_{b-s}(I_j) | C#_j
    return b"".join(out)


def cfb_encrypt(c, iv, pt, segment_size_bits=8):
    """CFB-s encryption, s = segment_size_bits (library default is 8)."""
    return _cfb(c, iv, pt, segment_size_bits, False)


def cfb_decrypt(c, iv, ct, segment_size_bits=8):
    return _cfb(c, iv, ct, segment_size_bits, True)


def ofb_crypt(c, iv, data):
    """OFB encryption == decryption; any data length."""
    bs = _bs(c)
    iv = bytes(iv)
    data = bytes(data)
    if len(iv) != bs:
        raise ValueError("OFB IV must be one block long")
    out = []
    o = iv
    for i in range(0, len(data), bs):
        o = c.encrypt_block(o)
        out.append(_xor_prefix(data[i:i + bs], o))
    return b"".join(out)


def ctr_counter_blocks(block_size, prefix, suffix, counter_len, initial_value,
                       little_endian=False):
    """Infinite generator of counter blocks prefix || counter || suffix.
    The counter field is `counter_len` bytes, starts at `initial_value` and
    is incremented by one modulo 2**(8*counter_len) for every block."""
    prefix = bytes(prefix)
    suffix = bytes(suffix)
    if counter_len < 1:
        raise ValueError("counter_len must be at least 1")
    if len(prefix) + counter_len + len(suffix) != block_size:
        raise ValueError("prefix + counter + suffix must fill exactly one block")
    mod = 1 << (8 * counter_len)
    if not 0 <= initial_value < mod:
        raise ValueError("initial counter value does not fit the counter field")
    order = "little" if little_endian else "big"
    v = initial_value
    while True:
        yield prefix + v.to_bytes(counter_len, order) + suffix
        v = (v + 1) % mod


def ctr_crypt(c, prefix, suffix, counter_len, initial_value, little_endian, data,
              allow_repeat=False):
    """CTR encryption == decryption; any data length.

    If the data needs more than 2**(8*counter_len) counter blocks (a counter
    block would be reused) OverflowError is raised unless allow_repeat."""
    bs = _bs(c)
    data = bytes(data)
    nblocks = (len(data) + bs - 1) // bs
    if not allow_repeat and nblocks > (1 << (8 * counter_len)):
        raise OverflowError("the counter has wrapped around in CTR mode")
    gen = ctr_counter_blocks(bs, prefix, suffix, counter_len, initial_value, little_endian)
    out = []
    for i in range(0, len(data), bs):
        out.append(_xor_prefix(data[i:i + bs], c.encrypt_block(next(gen))))
    return b"".join(out)


def _ctr_full(c, icb_int, data):
    """CTR with a whole-block big-endian counter starting at icb_int,
    incremented modulo 2**(8*block_size)  (EAX, SIV)."""
    bs = _bs(c)
    mod = 1 << (8 * bs)
    out = []
    v = icb_int % mod
    for i in range(0, len(data), bs):
        out.append(_xor_prefix(data[i:i + bs], c.encrypt_block(v.to_bytes(bs, "big"))))
        v = (v + 1) % mod
    return b"".join(out)


# ---------------------------------------------------------------------------
# OpenPGP CFB  (RFC 4880 sec 13.9, with resynchronisation)
# ---------------------------------------------------------------------------

def openpgp_encrypt(c, iv, pt):
    """Return encrypted-IV prefix (block_size + 2 bytes) || ciphertext.

    RFC 4880 13.9: FR = 0; C[1..BS] = E(FR) xor iv; FR = C[1..BS];
    C[BS+1..BS+2] = MSB_16(E(FR)) xor iv[BS-1..BS];  resync: FR = C[3..BS+2];
    the data follows in ordinary full-block CFB starting from that FR.
    `iv` is the random block ("prefix data"); any plaintext length."""
    bs = _bs(c)
    iv = bytes(iv)
    if len(iv) != bs:
        raise ValueError("OpenPGP IV must be one block long for encryption")
    c1 = _xor(iv, c.encrypt_block(b"\x00" * bs))
    c2 = _xor(iv[-2:], c.encrypt_block(c1)[:2])
    prefix = c1 + c2
    return prefix + _cfb(c, prefix[2:], pt, 8 * bs, False)


def openpgp_recover_iv(c, encrypted_iv):
    """(clear iv, quick_check_ok) from the block_size+2 byte prefix.
    quick_check_ok tells whether the two repeated bytes match (the library
    ignores that check on purpose, cf. eprint 2005/033)."""
    bs = _bs(c)
    e = bytes(encrypted_iv)
    if len(e) != bs + 2:
        raise ValueError("OpenPGP encrypted IV must be block_size + 2 bytes long")
    iv = _xor(e[:bs], c.encrypt_block(b"\x00" * bs))
    chk = _xor(e[bs:], c.encrypt_block(e[:bs])[:2])
    return iv, chk == iv[-2:]


def openpgp_decrypt(c, encrypted_iv, ct):
    """Plaintext for ciphertext `ct` that followed the prefix `encrypted_iv`."""
    bs = _bs(c)
    e = bytes(encrypted_iv)
    if len(e) != bs + 2:
        raise ValueError("OpenPGP encrypted IV must be block_size + 2 bytes long")
    return _cfb(c, e[2:], ct, 8 * bs, True)


# ---------------------------------------------------------------------------
# CMAC  (SP 800-38B)
# ---------------------------------------------------------------------------

_RB = {8: 0x1B, 16: 0x87}


def _dbl(x, bs):
    """Doubling in GF(2^(8*bs)) of a big-endian integer."""
    bits = 8 * bs
    x <<= 1
    if x >> bits:
        x = (x & ((1 << bits) - 1)) ^ _RB[bs]
    return x


def cmac_subkeys(c):
    bs = _bs(c)
    l = int.from_bytes(c.encrypt_block(b"\x00" * bs), "big")
    k1 = _dbl(l, bs)
    k2 = _dbl(k1, bs)
    return k1.to_bytes(bs, "big"), k2.to_bytes(bs, "big")


def cmac(c, msg, mac_len=None):
    bs = _bs(c)
    msg = bytes(msg)
    if mac_len is None:
        mac_len = bs
    if not 1 <= mac_len <= bs:
        raise ValueError("CMAC mac_len out of range")
    k1, k2 = cmac_subkeys(c)
    n = (len(msg) + bs - 1) // bs
    if n == 0:
        n = 1
    last = msg[(n - 1) * bs:]
    if len(last) == bs:
        last = _xor(last, k1)
    else:
        last = _xor(last + b"\x80" + b"\x00" * (bs - len(last) - 1), k2)
    x = b"\x00" * bs
    for i in range(n - 1):
        x = c.encrypt_block(_xor(x, msg[i * bs:(i + 1) * bs]))
    t = c.encrypt_block(_xor(x, last))
    return t[:mac_len]


# ---------------------------------------------------------------------------
# GCM  (SP 800-38D)
# ---------------------------------------------------------------------------

_GCM_R = 0xE1 << 120


def _gf128_mul_bitwise(x, y):
    """SP 800-38D Algorithm 1 on 128-bit integers (bit 0 = most significant)."""
    z = 0
    v = y
    for i in range(127, -1, -1):
        if (x >> i) & 1:
            z ^= v
        if v & 1:
            v = (v >> 1) ^ _GCM_R
        else:
            v >>= 1
    return z


def _gcm_mulx(v):
    return (v >> 1) ^ _GCM_R if v & 1 else v >> 1


def _gcm_build_r8():
    t = []
    for b in range(256):
        v = b
        for _ in range(8):
            v = _gcm_mulx(v)
        t.append(v)
    return t


_GCM_R8 = _gcm_build_r8()


class _GHashKey(object):
    """8-bit table multiplication by a fixed H (derived from Algorithm 1 by
    linearity; cross-checked against the bitwise algorithm in self_test)."""

    def __init__(self, h_int):
        self.h = h_int
        m = [0] * 256
        v = h_int
        bit = 0x80
        while bit:
            m[bit] = v
            v = _gcm_mulx(v)
            bit >>= 1
        for i in range(2, 256):
            low = i & -i
            if low != i:
                m[i] = m[low] ^ m[i ^ low]
        self.m = m

    def mul(self, x):
        m = self.m
        r8 = _GCM_R8
        z = 0
        for _ in range(16):
            z = (z >> 8) ^ r8[z & 255] ^ m[x & 255]
            x >>= 8
        return z

    def ghash(self, data):
        if len(data) % 16:
            raise ValueError("GHASH input must be a multiple of 16 bytes")
        y = 0
        for i in range(0, len(data), 16):
            y = self.mul(y ^ int.from_bytes(data[i:i + 16], "big"))
        return y


def ghash(h, data):
    """GHASH_H(data) as 16 bytes; len(data) must be a multiple of 16."""
    return _GHashKey(int.from_bytes(h, "big")).ghash(bytes(data)).to_bytes(16, "big")


def _pad16(x):
    return b"\x00" * (-len(x) % 16)


def _gcm_core(c, nonce, aad, data, mac_len, decrypt):
    if _bs(c) != 16:
        raise ValueError("GCM requires a 128-bit block cipher")
    nonce = bytes(nonce)
    aad = bytes(aad)
    data = bytes(data)
    if len(nonce) < 1:
        raise ValueError("GCM nonce must not be empty")
    if not 1 <= mac_len <= 16:
        raise ValueError("GCM mac_len out of range")
    if len(data) > ((1 << 32) - 2) * 16:
        raise ValueError("GCM plaintext too long")
    hk = _GHashKey(int.from_bytes(c.encrypt_block(b"\x00" * 16), "big"))
    if len(nonce) == 12:
        j0 = int.from_bytes(nonce + b"\x00\x00\x00\x01", "big")
    else:
        j0 = hk.ghash(nonce + _pad16(nonce) + b"\x00" * 8 + struct.pack(">Q", 8 * len(nonce)))

    def inc32(x):
        return (x & ~0xFFFFFFFF) | ((x + 1) & 0xFFFFFFFF)

    out = []
    cb = inc32(j0)
    for i in range(0, len(data), 16):
        out.append(_xor_prefix(data[i:i + 16], c.encrypt_block(cb.to_bytes(16, "big"))))
        cb = inc32(cb)
    res = b"".join(out)
    ct = data if decrypt else res
    s = hk.ghash(aad + _pad16(aad) + ct + _pad16(ct) +
                 struct.pack(">QQ", 8 * len(aad), 8 * len(ct)))
    tag = _xor(s.to_bytes(16, "big"), c.encrypt_block(j0.to_bytes(16, "big")))
    return res, tag[:mac_len]


def gcm_seal(c, nonce, aad, pt, mac_len=16):
    return _gcm_core(c, nonce, aad, pt, mac_len, False)


def gcm_open(c, nonce, aad, ct, mac_len=16):
    return _gcm_core(c, nonce, aad, ct, mac_len, True)


# ---------------------------------------------------------------------------
# CCM  (SP 800-38C / RFC 3610)
# ---------------------------------------------------------------------------

def _ccm_check(c, nonce, mac_len, msg_len):
    if _bs(c) != 16:
        raise ValueError("CCM requires a 128-bit block cipher")
    if not 7 <= len(nonce) <= 13:
        raise ValueError("CCM nonce must be 7..13 bytes long")
    if mac_len not in (4, 6, 8, 10, 12, 14, 16):
        raise ValueError("CCM mac_len must be one of 4, 6, 8, 10, 12, 14, 16")
    q = 15 - len(nonce)
    if msg_len >= (1 << (8 * q)):
        raise ValueError("CCM message too long for this nonce length")
    return q


def _ccm_tag_and_stream(c, nonce, aad, pt_for_mac, mac_len, q):
    # formatting function (SP 800-38C Appendix A)
    flags = (0x40 if aad else 0) | (((mac_len - 2) // 2) << 3) | (q - 1)
    b = bytes([flags]) + nonce + len(pt_for_mac).to_bytes(q, "big")
    if aad:
        a = len(aad)
        if a < 0xFF00:
            enc = a.to_bytes(2, "big")
        elif a < (1 << 32):
            enc = b"\xff\xfe" + a.to_bytes(4, "big")
        else:
            enc = b"\xff\xff" + a.to_bytes(8, "big")
        b += enc + aad
        b += _pad16(b)
    b += pt_for_mac + _pad16(pt_for_mac)
    y = b"\x00" * 16
    for i in range(0, len(b), 16):
        y = c.encrypt_block(_xor(y, b[i:i + 16]))
    s0 = c.encrypt_block(bytes([q - 1]) + nonce + (0).to_bytes(q, "big"))
    return _xor(y[:mac_len], s0[:mac_len])


def _ccm_ctr(c, nonce, q, data):
    out = []
    ctr = 1
    for i in range(0, len(data), 16):
        s = c.encrypt_block(bytes([q - 1]) + nonce + ctr.to_bytes(q, "big"))
        out.append(_xor_prefix(data[i:i + 16], s))
        ctr += 1
    return b"".join(out)


def ccm_seal(c, nonce, aad, pt, mac_len):
    nonce = bytes(nonce); aad = bytes(aad); pt = bytes(pt)
    q = _ccm_check(c, nonce, mac_len, len(pt))
    tag = _ccm_tag_and_stream(c, nonce, aad, pt, mac_len, q)
    return _ccm_ctr(c, nonce, q, pt), tag


def ccm_open(c, nonce, aad, ct, mac_len):
    nonce = bytes(nonce); aad = bytes(aad); ct = bytes(ct)
    q = _ccm_check(c, nonce, mac_len, len(ct))
    pt = _ccm_ctr(c, nonce, q, ct)
    return pt, _ccm_tag_and_stream(c, nonce, aad, pt, mac_len, q)


# ---------------------------------------------------------------------------
# EAX
# ---------------------------------------------------------------------------

def _omac(c, t, msg):
    bs = c.block_size
    return cmac(c, t.to_bytes(bs, "big") + msg)


def _eax_core(c, nonce, aad, data, mac_len, decrypt):
    bs = _bs(c)
    nonce = bytes(nonce); aad = bytes(aad); data = bytes(data)
    if len(nonce) < 1:
        raise ValueError("EAX nonce must not be empty")
    if not 1 <= mac_len <= bs:
        raise ValueError("EAX mac_len out of range")
    n_ = _omac(c, 0, nonce)
    h_ = _omac(c, 1, aad)
    res = _ctr_full(c, int.from_bytes(n_, "big"), data)
    ct = data if decrypt else res
    c_ = _omac(c, 2, ct)
    tag = _xor(_xor(n_, h_), c_)
    return res, tag[:mac_len]


def eax_seal(c, nonce, aad, pt, mac_len=None):
    return _eax_core(c, nonce, aad, pt, c.block_size if mac_len is None else mac_len, False)


def eax_open(c, nonce, aad, ct, mac_len=None):
    return _eax_core(c, nonce, aad, ct, c.block_size if mac_len is None else mac_len, True)


# ---------------------------------------------------------------------------
# SIV  (RFC 5297)
# ---------------------------------------------------------------------------

S2V_MAX_COMPONENTS = 127


def s2v(c, components):
    """RFC 5297 sec 2.4.  `components` = [S1, ..., Sn] INCLUDING the final
    string Sn (the plaintext in SIV).  With n = 0 returns CMAC(<one>)."""
    if _bs(c) != 16:
        raise ValueError("S2V is defined for 128-bit block ciphers")
    comps = [bytes(x) for x in components]
    if len(comps) > S2V_MAX_COMPONENTS:
        raise ValueError("S2V accepts at most 127 components")
    if not comps:
        return cmac(c, b"\x00" * 15 + b"\x01")
    d = int.from_bytes(cmac(c, b"\x00" * 16), "big")
    for s in comps[:-1]:
        d = _dbl(d, 16) ^ int.from_bytes(cmac(c, s), "big")
    sn = comps[-1]
    if len(sn) >= 16:
        t = sn[:-16] + _xor(sn[-16:], d.to_bytes(16, "big"))       # xorend
    else:
        padded = sn + b"\x80" + b"\x00" * (15 - len(sn))
        t = (_dbl(d, 16) ^ int.from_bytes(padded, "big")).to_bytes(16, "big")
    return cmac(c, t)


_SIV_MASK = ((1 << 128) - 1) ^ (1 << 63) ^ (1 << 31)


def _siv_keys(cipher_cls, key):
    key = bytes(key)
    if len(key) not in (32, 48, 64):
        raise ValueError("SIV key must be 32, 48 or 64 bytes long")
    h = len(key) // 2
    return cipher_cls(key[:h]), cipher_cls(key[h:])


def siv_seal(cipher_cls, key, components, pt):
    """-> (ciphertext, tag).  `cipher_cls(key)` must build a 128-bit block
    cipher (duck type above).  S2V runs over components + [pt]; put the
    nonce, if any, LAST in `components`."""
    pt = bytes(pt)
    c1, c2 = _siv_keys(cipher_cls, key)
    v = s2v(c1, list(components) + [pt])
    q = int.from_bytes(v, "big") & _SIV_MASK
    return _ctr_full(c2, q, pt), v


def siv_open(cipher_cls, key, components, ct, tag):
    """-> (plaintext, expected_tag): CTR-decrypt with the RECEIVED tag as
    synthetic IV, then recompute S2V over components + [plaintext]."""
    ct = bytes(ct)
    tag = bytes(tag)
    if len(tag) != 16:
        raise ValueError("SIV tag must be 16 bytes long")
    c1, c2 = _siv_keys(cipher_cls, key)
    q = int.from_bytes(tag, "big") & _SIV_MASK
    pt = _ctr_full(c2, q, ct)
    return pt, s2v(c1, list(components) + [pt])


# ---------------------------------------------------------------------------
# OCB3  (RFC 7253)
# ---------------------------------------------------------------------------

def _ntz(i):
    return (i & -i).bit_length() - 1


class _OcbKey(object):
    def __init__(self, c):
        if _bs(c) != 16:
            raise ValueError("OCB requires a 128-bit block cipher")
        self.c = c
        self.l_star = int.from_bytes(c.encrypt_block(b"\x00" * 16), "big")
        self.l_dollar = _dbl(self.l_star, 16)
        self._l = [_dbl(self.l_dollar, 16)]

    def l(self, i):
        while len(self._l) <= i:
            self._l.append(_dbl(self._l[-1], 16))
        return self._l[i]

    def enc(self, x):
        return int.from_bytes(self.c.encrypt_block(x.to_bytes(16, "big")), "big")

    def dec(self, x):
        return int.from_bytes(self.c.decrypt_block(x.to_bytes(16, "big")), "big")

    def hash(self, a):
        s = 0
        off = 0
        m = len(a) // 16
        for i in range(1, m + 1):
            off ^= self.l(_ntz(i))
            s ^= self.enc(int.from_bytes(a[16 * (i - 1):16 * i], "big") ^ off)
        rest = a[16 * m:]
        if rest:
            off ^= self.l_star
            padded = rest + b"\x80" + b"\x00" * (15 - len(rest))
            s ^= self.enc(int.from_bytes(padded, "big") ^ off)
        return s


def _ocb_core(c, nonce, aad, data, mac_len, decrypt):
    nonce = bytes(nonce); aad = bytes(aad); data = bytes(data)
    if not 1 <= len(nonce) <= 15:
        raise ValueError("OCB nonce must be 1..15 bytes long")
    if not 1 <= mac_len <= 16:
        raise ValueError("OCB mac_len out of range")
    k = _OcbKey(c)
    # Nonce = num2str(TAGLEN mod 128, 7) || zeros(120 - bitlen(N)) || 1 || N
    n_int = (((8 * mac_len) % 128) << 121) | (1 << (8 * len(nonce))) | int.from_bytes(nonce, "big")
    bottom = n_int & 0x3F
    ktop = k.enc(n_int & ~0x3F)
    stretch = (ktop << 64) | ((ktop >> 64) ^ ((ktop >> 56) & ((1 << 64) - 1)))   # 192 bits
    off = (stretch >> (64 - bottom)) & ((1 << 128) - 1)
    checksum = 0
    out = []
    m = len(data) // 16
    for i in range(1, m + 1):
        off ^= k.l(_ntz(i))
        blk = int.from_bytes(data[16 * (i - 1):16 * i], "big")
        if decrypt:
            p = off ^ k.dec(blk ^ off)
            out.append(p.to_bytes(16, "big"))
            checksum ^= p
        else:
            out.append((off ^ k.enc(blk ^ off)).to_bytes(16, "big"))
            checksum ^= blk
    rest = data[16 * m:]
    if rest:
        off ^= k.l_star
        pad = k.enc(off).to_bytes(16, "big")
        res = _xor_prefix(rest, pad)
        out.append(res)
        p_star = res if decrypt else rest
        checksum ^= int.from_bytes(p_star + b"\x80" + b"\x00" * (15 - len(p_star)), "big")
    tag = k.enc(checksum ^ off ^ k.l_dollar) ^ k.hash(aad)
    return b"".join(out), tag.to_bytes(16, "big")[:mac_len]


def ocb_seal(c, nonce, aad, pt, mac_len=16):
    return _ocb_core(c, nonce, aad, pt, mac_len, False)


def ocb_open(c, nonce, aad, ct, mac_len=16):
    return _ocb_core(c, nonce, aad, ct, mac_len, True)


# ---------------------------------------------------------------------------
# Poly1305 and ChaCha20-Poly1305
# ---------------------------------------------------------------------------

_P1305 = (1 << 130) - 5


def poly1305(key32, msg):
    """Poly1305 one-time MAC; key32 = r || s (16 + 16 bytes, RFC 8439 2.5)."""
    key32 = bytes(key32)
    msg = bytes(msg)
    if len(key32) != 32:
        raise ValueError("Poly1305 key must be 32 bytes long (r || s)")
    r = int.from_bytes(key32[:16], "little") & 0x0FFFFFFC0FFFFFFC0FFFFFFC0FFFFFFF
    s = int.from_bytes(key32[16:], "little")
    acc = 0
    for i in range(0, len(msg), 16):
        n = int.from_bytes(msg[i:i + 16] + b"\x01", "little")
        acc = ((acc + n) * r) % _P1305
    return ((acc + s) & ((1 << 128) - 1)).to_bytes(16, "little")


def poly1305_cipher_mac(cipher_name, key, nonce, msg):
    """Tag of Crypto.Hash.Poly1305.new(key=key, nonce=nonce, cipher=X, data=msg).

    cipher_name "AES":      key = k(16) || r(16); nonce 16 bytes; s = AES_k(nonce)
                            (Bernstein's Poly1305-AES).
    cipher_name "ChaCha20": key 32 bytes; nonce 12 bytes, or 8 bytes which is
                            left-padded with 4 zero bytes; r || s = first 32
                            bytes of ChaCha20 block 0 (RFC 8439 sec 2.6)."""
    key = bytes(key)
    nonce = bytes(nonce)
    if len(key) != 32:
        raise ValueError("Poly1305 key must be 32 bytes long")
    name = cipher_name.upper()
    if name == "AES":
        if len(nonce) != 16:
            raise ValueError("Poly1305-AES requires a 16-byte nonce")
        s = _ciphers.AES(key[:16]).encrypt_block(nonce)
        return poly1305(key[16:] + s, msg)
    if name == "CHACHA20":
        if len(nonce) == 8:
            nonce = b"\x00" * 4 + nonce
        elif len(nonce) != 12:
            raise ValueError("Poly1305-ChaCha20 requires an 8- or 12-byte nonce")
        return poly1305(_ciphers.chacha20_block(key, 0, nonce)[:32], msg)
    raise ValueError("cipher_name must be 'AES' or 'ChaCha20'")


def _cc20p1305_core(key, nonce, aad, data, decrypt):
    aad = bytes(aad); data = bytes(data)
    k, n, _maxb = _ciphers.chacha20_params(key, nonce)      # handles 8 / 12 / 24
    otk = _ciphers.chacha20_block(k, 0, n)[:32]
    res = _ciphers.chacha20_xor(k, n, data, offset_bytes=64)
    ct = data if decrypt else res
    mac_data = (aad + _pad16(aad) + ct + _pad16(ct) +
                struct.pack("<QQ", len(aad), len(ct)))
    return res, poly1305(otk, mac_data)


def chacha20_poly1305_seal(key, nonce, aad, pt):
    """nonce 12: RFC 8439; nonce 24: XChaCha20-Poly1305; nonce 8: see module
    doc (RFC 8439 construction over the 64-bit-counter ChaCha20)."""
    return _cc20p1305_core(key, nonce, aad, pt, False)


def chacha20_poly1305_open(key, nonce, aad, ct):
    return _cc20p1305_core(key, nonce, aad, ct, True)


# ---------------------------------------------------------------------------
# AES Key Wrap (RFC 3394 / SP 800-38F KW) and with padding (RFC 5649 / KWP)
# ---------------------------------------------------------------------------

KW_ICV1 = bytes.fromhex("A6A6A6A6A6A6A6A6")
KWP_ICV2 = bytes.fromhex("A65959A6")


def _kw_check_cipher(c):
    if _bs(c) != 16:
        raise ValueError("key wrap requires a 128-bit block cipher")


def kw_wrap_raw(c, a, p):
    """The wrapping function W on an ARBITRARY 8-byte `a` and data `p`
    (multiple of 8 bytes, >= 8).  For len(p) == 8 the result is the single
    ECB block E(a || p) as RFC 5649 sec 4.1 prescribes; otherwise RFC 3394
    sec 2.2.1.  Lets the caller build deliberately malformed wrapped keys."""
    _kw_check_cipher(c)
    a = bytes(a); p = bytes(p)
    if len(a) != 8:
        raise ValueError("A must be 8 bytes long")
    if len(p) % 8 or len(p) < 8:
        raise ValueError("P must be a non-empty multiple of 8 bytes")
    n = len(p) // 8
    if n == 1:
        return c.encrypt_block(a + p)
    r = [p[8 * i:8 * i + 8] for i in range(n)]
    for j in range(6):
        for i in range(n):
            b = c.encrypt_block(a + r[i])
            t = n * j + i + 1
            a = _xor(b[:8], t.to_bytes(8, "big"))
            r[i] = b[8:]
    return a + b"".join(r)


def kw_unwrap_raw(c, ct):
    """Inverse of kw_wrap_raw: -> (A, P) with NO integrity checking."""
    _kw_check_cipher(c)
    ct = bytes(ct)
    if len(ct) % 8 or len(ct) < 16:
        raise ValueError("wrapped data must be a multiple of 8 bytes, >= 16")
    n = len(ct) // 8 - 1
    if n == 1:
        b = c.decrypt_block(ct)
        return b[:8], b[8:]
    a = ct[:8]
    r = [ct[8 * (i + 1):8 * (i + 2)] for i in range(n)]
    for j in range(5, -1, -1):
        for i in range(n - 1, -1, -1):
            t = n * j + i + 1
            b = c.decrypt_block(_xor(a, t.to_bytes(8, "big")) + r[i])
            a = b[:8]
            r[i] = b[8:]
    return a, b"".join(r)


def kw_wrap(c, pt):
    pt = bytes(pt)
    if len(pt) % 8:
        raise ValueError("KW plaintext must be a multiple of 8 bytes")
    if len(pt) < 16:
        raise ValueError("KW plaintext must be at least 16 bytes long")
    return kw_wrap_raw(c, KW_ICV1, pt)


def kw_unwrap(c, ct):
    """-> plaintext, or ValueError (bad length / integrity check failure)."""
    ct = bytes(ct)
    if len(ct) % 8:
        raise ValueError("KW ciphertext must be a multiple of 8 bytes")
    if len(ct) < 24:
        raise ValueError("KW ciphertext must be at least 24 bytes long")
    a, p = kw_unwrap_raw(c, ct)
    if a != KW_ICV1:
        raise ValueError("KW integrity check failed")
    return p


def kwp_wrap(c, pt):
    pt = bytes(pt)
    if not 1 <= len(pt) < (1 << 32):
        raise ValueError("KWP plaintext must be 1..2**32-1 bytes long")
    aiv = KWP_ICV2 + struct.pack(">I", len(pt))
    return kw_wrap_raw(c, aiv, pt + b"\x00" * (-len(pt) % 8))


def kwp_unwrap(c, ct):
    """-> plaintext, or ValueError.  Strict RFC 5649 sec 3 checks: MSB32(A) ==
    A65959A6, 8(n-1) < MLI <= 8n, and all padding bytes zero."""
    ct = bytes(ct)
    if len(ct) % 8:
        raise ValueError("KWP ciphertext must be a multiple of 8 bytes")
    if len(ct) < 16:
        raise ValueError("KWP ciphertext must be at least 16 bytes long")
    a, p = kw_unwrap_raw(c, ct)
    if a[:4] != KWP_ICV2:
        raise ValueError("KWP integrity check failed (ICV2)")
    mli = struct.unpack(">I", a[4:])[0]
    n = len(p) // 8
    if not 8 * (n - 1) < mli <= 8 * n:
        raise ValueError("KWP integrity check failed (MLI)")
    if any(p[mli:]):
        raise ValueError("KWP integrity check failed (padding)")
    return p[:mli]


# ---------------------------------------------------------------------------
# Self test with published known-answer vectors
# ---------------------------------------------------------------------------

def _h(s):
    return bytes.fromhex(s.replace(" ", "").replace("\n", "").replace(":", ""))


def self_test():
    AES = _ciphers.AES
    DES3 = _ciphers.DES3

    # ---- SP 800-38A Appendix F (AES-128) ------------------------------------
    k = AES(_h("2b7e151628aed2a6abf7158809cf4f3c"))
    iv = _h("000102030405060708090a0b0c0d0e0f")
    pt = _h("6bc1bee22e409f96e93d7e117393172a ae2d8a571e03ac9c9eb76fac45af8e51"
            "30c81c46a35ce411e5fbc1191a0a52ef f69f2445df4f9b17ad2b417be66c3710")
    # F.1.1 ECB
    ct = _h("3ad77bb40d7a3660a89ecaf32466ef97 f5d3d58503b9699de785895a96fdbaaf"
            "43b1cd7f598ece23881b00e3ed030688 7b0c785e27e8ad3f8223207104725dd4")
    assert ecb_encrypt(k, pt) == ct and ecb_decrypt(k, ct) == pt, "ECB"
    # F.2.1 CBC
    ct = _h("7649abac8119b246cee98e9b12e9197d 5086cb9b507219ee95db113a917678b2"
            "73bed6b8e3c1743b7116e69e22229516 3ff1caa1681fac09120eca307586e1a7")
    assert cbc_encrypt(k, iv, pt) == ct and cbc_decrypt(k, iv, ct) == pt, "CBC"
    # F.3.7 CFB8
    ct = _h("3b79424c9c0dd436bace9e0ed4586a4f32b9")
    assert cfb_encrypt(k, iv, pt[:18], 8) == ct and cfb_decrypt(k, iv, ct, 8) == pt[:18], "CFB8"
    # F.3.13 CFB128
    ct = _h("3b3fd92eb72dad20333449f8e83cfb4a c8a64537a0b3a93fcde3cdad9f1ce58b"
            "26751f67a3cbb140b1808cf187a4f4df c04b05357c5d1c0eeac4c66f9ff7f2e6")
    assert cfb_encrypt(k, iv, pt, 128) == ct and cfb_decrypt(k, iv, ct, 128) == pt, "CFB128"
    # F.4.1 OFB
    ct = _h("3b3fd92eb72dad20333449f8e83cfb4a 7789508d16918f03f53c52dac54ed825"
            "9740051e9c5fecf64344f7a82260edcc 304c6528f659c77866a510d9c1d6ae5e")
    assert ofb_crypt(k, iv, pt) == ct and ofb_crypt(k, iv, ct) == pt, "OFB"
    assert ofb_crypt(k, iv, pt[:37]) == ct[:37]
    # F.5.1 CTR (whole block is the counter)
    ct = _h("874d6191b620e3261bef6864990db6ce 9806f66b7970fdff8617187bb9fffdff"
            "5ae4df3edbd5d35e5b4f09020db03eab 1e031dda2fbe03d1792170a0f3009cee")
    icb = int("f0f1f2f3f4f5f6f7f8f9fafbfcfdfeff", 16)
    assert ctr_crypt(k, b"", b"", 16, icb, False, pt) == ct, "CTR"
    assert ctr_crypt(k, _h("f0f1f2f3f4f5f6f7f8f9fafbfcfd"), b"", 2, 0xFEFF, False, pt) == ct
    assert ctr_crypt(k, _h("f0f1f2f3f4f5f6f7"), _h("fcfdfeff"), 4, 0xF8F9FAFB, False, pt[:16]) == ct[:16]
    # RFC 3686 test vector #2 (nonce || IV || 32-bit counter starting at 1)
    k2 = AES(_h("7e24067817fae0d743d6ce1f32539163"))
    assert ctr_crypt(k2, _h("006cb6db c0543b59da48d90b"), b"", 4, 1, False, bytes(range(32))) == _h(
        "5104a106168a72d9790d41ee8edad388eb2e1efc46da57c8fce630df9141be28"), "CTR RFC3686"
    # counter wrap-around and little-endian encoding (structural)
    g = ctr_counter_blocks(8, b"ab", b"c", 5, (1 << 40) - 1, False)
    assert next(g) == b"ab" + b"\xff" * 5 + b"c" and next(g) == b"ab" + b"\x00" * 5 + b"c"
    g = ctr_counter_blocks(8, b"", b"", 8, 0x0102, True)
    assert next(g) == b"\x02\x01" + bytes(6)
    try:
        ctr_crypt(k, b"\x00" * 15, b"", 1, 0, False, bytes(4097))
        raise AssertionError("CTR overflow not detected")
    except OverflowError:
        pass
    assert len(ctr_crypt(k, b"\x00" * 15, b"", 1, 200, False, bytes(4096))) == 4096

    # ---- OpenPGP CFB: vectors produced by GnuPG 1.4.0 --------------------------
    ka = AES(_h("5baa61e4c9b93f3f0682250b6cf8331b"))
    iv = _h("3d7d3e62282add7eb203eeba5c800733")
    eiv = _h("fd934601ef49cb58b6d9aebca6056bdb96ef")
    p = _h("ac18620270744fb4f647426c61636b4361745768697465436174")
    cc = _h("dc6b9e1f095de609765c59983db5956ae4f63aea7405389d2ebb")
    assert openpgp_encrypt(ka, iv, p) == eiv + cc, "OpenPGP AES"
    assert openpgp_decrypt(ka, eiv, cc) == p
    assert openpgp_recover_iv(ka, eiv) == (iv, True)
    kd = DES3(_h("7ade65b460f5ea9be35f9e14aa883a2048e3824aa616c0b2"))
    iv = _h("cd47e2afb8b7e4b0")
    eiv = _h("6a7eef0b58050e8b904a")
    p = _h("ac1762037074324fb53ba3596f73656d69746556616c6c6579")
    cc = _h("9979238528357b90e2e0be549cb0b2d5999b9a4a447e5c5c7d")
    assert openpgp_encrypt(kd, iv, p) == eiv + cc, "OpenPGP 3DES"
    assert openpgp_decrypt(kd, eiv, cc) == p
    assert openpgp_recover_iv(kd, eiv) == (iv, True)

    # ---- CMAC: RFC 4493 / SP 800-38B ---------------------------------------------
    k = AES(_h("2b7e151628aed2a6abf7158809cf4f3c"))
    assert cmac_subkeys(k) == (_h("fbeed618357133667c85e08f7236a8de"),
                               _h("f7ddac306ae266ccf90bc11ee46d513b"))
    m = _h("6bc1bee22e409f96e93d7e117393172a ae2d8a571e03ac9c9eb76fac45af8e51"
           "30c81c46a35ce411e5fbc1191a0a52ef f69f2445df4f9b17ad2b417be66c3710")
    assert cmac(k, b"") == _h("bb1d6929e95937287fa37d129b756746")
    assert cmac(k, m[:16]) == _h("070a16b46b4d4144f79bdd9dd04a287c")
    assert cmac(k, m[:40]) == _h("dfa66747de9ae63030ca32611497c827")
    assert cmac(k, m) == _h("51f0bebf7e3b9d92fc49741779363cfe")
    assert cmac(k, m, 8) == _h("51f0bebf7e3b9d92")
    k = AES(_h("8e73b0f7da0e6452c810f32b809079e562f8ead2522c6b7b"))
    assert cmac(k, m[:40]) == _h("8a1de5be2eb31aad089a82e6ee908b0e")
    # three-key and two-key TDEA (64-bit block, Rb = 0x1B)
    k = DES3(_h("8aa83bf8cbda10620bc1bf19fbb6cd58bc313d4a371ca8b5"))
    m3 = _h("6bc1bee22e409f96e93d7e117393172aae2d8a571e03ac9c9eb76fac45af8e51")
    assert cmac(k, b"") == _h("b7a688e122ffaf95")
    assert cmac(k, m3[:8]) == _h("8e8f293136283797")
    assert cmac(k, m3[:20]) == _h("743ddbe0ce2dc2ed")
    assert cmac(k, m3) == _h("33e6b1092400eae5")
    k = DES3(_h("4cf15134a2850dd58a3d10ba80570d38"))
    assert cmac(k, b"") == _h("bd2ebf9a3ba00361")
    assert cmac(k, m3[:8]) == _h("4ff2ab813c53ce83")
    assert cmac(k, m3[:20]) == _h("62dd1b471902bd4e")

    # ---- GCM: McGrew & Viega test cases 1-6 ---------------------------------------
    hk = _GHashKey(0x66e94bd4ef8a2c3b884cfa59ca342b2e)
    for x in (1, 1 << 127, 0x0388dace60b6a392f328c2b971b2fe78, (1 << 128) - 1):
        assert hk.mul(x) == _gf128_mul_bitwise(x, hk.h) == _gf128_mul_bitwise(hk.h, x), "GHASH mul"
    # test case 2: GHASH(H, {}, C) = f38cbb1ad69223dcc3457ae5b6b0f885
    assert ghash(_h("66e94bd4ef8a2c3b884cfa59ca342b2e"),
                 _h("0388dace60b6a392f328c2b971b2fe78") + bytes(8) + struct.pack(">Q", 128)) == \
        _h("f38cbb1ad69223dcc3457ae5b6b0f885")
    zk = AES(bytes(16))
    assert gcm_seal(zk, bytes(12), b"", b"") == (b"", _h("58e2fccefa7e3061367f1d57a4e7455a"))
    assert gcm_seal(zk, bytes(12), b"", bytes(16)) == (
        _h("0388dace60b6a392f328c2b971b2fe78"), _h("ab6e47d42cec13bdf53a67b21257bddf"))
    gk = AES(_h("feffe9928665731c6d6a8f9467308308"))
    gp = _h("d9313225f88406e5a55909c5aff5269a86a7a9531534f7da2e4c303d8a318a72"
            "1c3c0c95956809532fcf0e2449a6b525b16aedf5aa0de657ba637b391aafd255")
    ga = _h("feedfacedeadbeeffeedfacedeadbeefabaddad2")
    gcm_cases = [
        (_h("cafebabefacedbaddecaf888"), b"", gp,
         "42831ec2217774244b7221b784d0d49ce3aa212f2c02a4e035c17e2329aca12e"
         "21d514b25466931c7d8f6a5aac84aa051ba30b396a0aac973d58e091473f5985",
         "4d5c2af327cd64a62cf35abd2ba6fab4"),
        (_h("cafebabefacedbaddecaf888"), ga, gp[:60],
         "42831ec2217774244b7221b784d0d49ce3aa212f2c02a4e035c17e2329aca12e"
         "21d514b25466931c7d8f6a5aac84aa051ba30b396a0aac973d58e091",
         "5bc94fbc3221a5db94fae95ae7121a47"),
        (_h("cafebabefacedbad"), ga, gp[:60],
         "61353b4c2806934a777ff51fa22a4755699b2a714fcdc6f83766e5f97b6c7423"
         "73806900e49f24b22b097544d4896b424989b5e1ebac0f07c23f4598",
         "3612d2e79e3b0785561be14aaca2fccb"),
        (_h("9313225df88406e555909c5aff5269aa6a7a9538534f7da1e4c303d2a318a728"
            "c3c0c95156809539fcf0e2429a6b525416aedbf5a0de6a57a637b39b"), ga, gp[:60],
         "8ce24998625615b603a033aca13fb894be9112a5c3a211a8ba262a3cca7e2ca7"
         "01e4a9a4fba43c90ccdcb281d48c7c6fd62875d2aca417034c34aee5",
         "619cc5aefffe0bfa462af43c1699d050"),
    ]
    for n, a, p, cth, th in gcm_cases:
        assert gcm_seal(gk, n, a, p) == (_h(cth), _h(th)), "GCM seal"
        assert gcm_open(gk, n, a, _h(cth)) == (p, _h(th)), "GCM open"
        assert gcm_seal(gk, n, a, p, 12)[1] == _h(th)[:12]
    # test case 7 (AES-192) and 13 (AES-256), empty everything
    assert gcm_seal(AES(bytes(24)), bytes(12), b"", b"")[1] == _h("cd33b28ac773f74ba00ed1f312572435")
    assert gcm_seal(AES(bytes(32)), bytes(12), b"", b"")[1] == _h("530f8afbc74536b9a963b4f1c4cb738b")

    # ---- CCM: SP 800-38C Appendix C examples 1-4, RFC 3610 vectors 1, 2, 7 ------
    ck = AES(_h("404142434445464748494a4b4c4d4e4f"))
    ccm_cases = [
        (ck, "10111213141516", "0001020304050607", "20212223", "7162015b", "4dac255d"),
        (ck, "1011121314151617", "000102030405060708090a0b0c0d0e0f",
         "202122232425262728292a2b2c2d2e2f", "d2a1f0e051ea5f62081a7792073d593d", "1fc64fbfaccd"),
        (ck, "101112131415161718191a1b", "000102030405060708090a0b0c0d0e0f10111213",
         "202122232425262728292a2b2c2d2e2f3031323334353637",
         "e3b201a9f5b71a7a9b1ceaeccd97e70b6176aad9a4428aa5", "484392fbc1b09951"),
        # example 4: 65536 bytes of associated data (6-byte length encoding ff fe ....)
        (ck, "101112131415161718191a1b1c", bytes(range(256)).hex() * 256,
         "202122232425262728292a2b2c2d2e2f303132333435363738393a3b3c3d3e3f",
         "69915dad1e84c6376a68c2967e4dab615ae0fd1faec44cc484828529463ccf72",
         "b4ac6bec93e8598e7f0dadbcea5b"),
    ]
    rk = AES(_h("c0c1c2c3c4c5c6c7c8c9cacbcccdcecf"))
    ccm_cases += [
        (rk, "00000003020100a0a1a2a3a4a5", "0001020304050607",
         "08090a0b0c0d0e0f101112131415161718191a1b1c1d1e",
         "588c979a61c663d2f066d0c2c0f989806d5f6b61dac384", "17e8d12cfdf926e0"),
        (rk, "00000004030201a0a1a2a3a4a5", "0001020304050607",
         "08090a0b0c0d0e0f101112131415161718191a1b1c1d1e1f",
         "72c91a36e135f8cf291ca894085c87e3cc15c439c9e43a3b", "a091d56e10400916"),
        (rk, "00000009080706a0a1a2a3a4a5", "0001020304050607",
         "08090a0b0c0d0e0f101112131415161718191a1b1c1d1e",
         "0135d1b2c95f41d5d1d4fec185d166b8094e999dfed96c", "048c56602c97acbb7490"),
    ]
    for key, n, a, p, cth, th in ccm_cases:
        n, a, p, cth, th = _h(n), _h(a), _h(p), _h(cth), _h(th)
        assert ccm_seal(key, n, a, p, len(th)) == (cth, th), "CCM seal"
        assert ccm_open(key, n, a, cth, len(th)) == (p, th), "CCM open"

    # ---- EAX: vectors of the EAX paper (AES-128) ------------------------------------
    eax_cases = [
        ("6bfb914fd07eae6b", "", "", "e037830e8389f27b025a2d6527e79d01",
         "233952dee4d5ed5f9b9c6d6ff80ff478", "62ec67f9c3a4a407fcb2a8c49031a8b3"),
        ("fa3bfd4806eb53fa", "f7fb", "19dd", "5c4c9331049d0bdab0277408f67967e5",
         "91945d3f4dcbee0bf45ef52255f095a4", "becaf043b0a23d843194ba972c66debd"),
        ("234a3463c1264ac6", "1a47cb4933", "d851d5bae0", "3a59f238a23e39199dc9266626c40f80",
         "01f74ad64077f2e704c0f60ada3dd523", "70c3db4f0d26368400a10ed05d2bff5e"),
        ("65d2017990d62528", "8b0a79306c9ce7ed99dae4f87f8dd61636",
         "02083e3979da014812f59f11d52630da30", "137327d10649b0aa6e1c181db617d7f2",
         "7c77d6e813bed5ac98baa417477a2e7d", "1a8c98dcd73d38393b2bf1569deefc19"),
        ("126735fcc320d25a", "ca40d7446e545ffaed3bd12a740a659ffbbb3ceab7",
         "cb8920f87a6c75cff39627b56e3ed197c552d295a7", "cfc46afc253b4652b1af3795b124ab6e",
         "8395fcf1e95bebd697bd010bc766aac3", "22e7add93cfc6393c57ec0b3c17d6b44"),
    ]
    for a, p, cth, th, key, n in eax_cases:
        a, p, cth, th, key, n = [_h(x) for x in (a, p, cth, th, key, n)]
        assert eax_seal(AES(key), n, a, p, 16) == (cth, th), "EAX seal"
        assert eax_open(AES(key), n, a, cth, 16) == (p, th), "EAX open"
        assert eax_seal(AES(key), n, a, p, 7)[1] == th[:7]

    # ---- SIV: RFC 5297 A.1 (deterministic) and A.2 (nonce-based) ---------------------
    key = _h("fffefdfcfbfaf9f8f7f6f5f4f3f2f1f0 f0f1f2f3f4f5f6f7f8f9fafbfcfdfeff")
    ad = [_h("101112131415161718191a1b1c1d1e1f2021222324252627")]
    p = _h("112233445566778899aabbccddee")
    assert s2v(AES(key[:16]), ad + [p]) == _h("85632d07c6e8f37f950acd320a2ecc93"), "S2V"
    assert siv_seal(AES, key, ad, p) == (_h("40c02b9690c4dc04daef7f6afe5c"),
                                         _h("85632d07c6e8f37f950acd320a2ecc93")), "SIV A.1"
    assert siv_open(AES, key, ad, _h("40c02b9690c4dc04daef7f6afe5c"),
                    _h("85632d07c6e8f37f950acd320a2ecc93")) == (p, _h("85632d07c6e8f37f950acd320a2ecc93"))
    key = _h("7f7e7d7c7b7a79787776757473727170 404142434445464748494a4b4c4d4e4f")
    ad = [_h("00112233445566778899aabbccddeeffdeaddadadeaddadaffeeddccbbaa99887766554433221100"),
          _h("102030405060708090a0"),
          _h("09f911029d74e35bd84156c5635688c0")]          # the nonce is the last AD component
    p = b"this is some plaintext to encrypt using SIV-AES"
    ctv = _h("cb900f2fddbe404326601965c889bf17dba77ceb094fa663b7a3f748ba8af829ea64ad544a272e9c485b62a3fd5c0d")
    tgv = _h("7bdb6e3b432667eb06f4d14bff2fbd0f")
    assert siv_seal(AES, key, ad, p) == (ctv, tgv), "SIV A.2"
    assert siv_open(AES, key, ad, ctv, tgv) == (p, tgv)
    # n = 0 corner case: S2V() = CMAC(K, <one>)
    assert s2v(AES(key[:16]), []) == cmac(AES(key[:16]), bytes(15) + b"\x01")
    assert s2v(AES(key[:16]), []) != s2v(AES(key[:16]), [b""])

    # ---- OCB3: RFC 7253 Appendix A ------------------------------------------------------
    ok = AES(_h("000102030405060708090a0b0c0d0e0f"))
    d40 = bytes(range(40))
    ocb_cases = [
        ("bbaa99887766554433221100", 0, 0, "785407bfffc8ad9edcc5520ac9111ee6"),
        ("bbaa99887766554433221101", 8, 8, "6820b3657b6f615a5725bda0d3b4eb3a257c9af1f8f03009"),
        ("bbaa99887766554433221102", 8, 0, "81017f8203f081277152fade694a0a00"),
        ("bbaa99887766554433221103", 0, 8, "45dd69f8f5aae72414054cd1f35d82760b2cd00d2f99bfa9"),
        ("bbaa99887766554433221104", 16, 16,
         "571d535b60b277188be5147170a9a22c3ad7a4ff3835b8c5701c1ccec8fc3358"),
        ("bbaa99887766554433221107", 24, 24,
         "1ca2207308c87c010756104d8840ce1952f09673a448a122c92c62241051f57356d7f3c90bb0e07f"),
        ("bbaa9988776655443322110a", 32, 32,
         "bd6f6c496201c69296c11efd138a467abd3c707924b964deaffc40319af5a48540fbba186c5553c68ad9f592a79a4240"),
        ("bbaa9988776655443322110d", 40, 40,
         "d5ca91748410c1751ff8a2f618255b68a0a12e093ff454606e59f9c1d0ddc54b65e8628e568bad7a"
         "ed07ba06a4a69483a7035490c5769e60"),
        ("bbaa9988776655443322110e", 40, 0, "c5cd9d1850c141e358649994ee701b68"),
        ("bbaa9988776655443322110f", 0, 40,
         "4412923493c57d5de0d700f753cce0d1d2d95060122e9f15a5ddbfc5787e50b5cc55ee507bcb084e"
         "479ad363ac366b95a98ca5f3000b1479"),
    ]
    for n, alen, plen, out in ocb_cases:
        out = _h(out)
        assert ocb_seal(ok, _h(n), d40[:alen], d40[:plen]) == (out[:-16], out[-16:]), "OCB seal " + n
        assert ocb_open(ok, _h(n), d40[:alen], out[:-16]) == (d40[:plen], out[-16:]), "OCB open " + n
    out = _h("1792a4e31e0755fb03e31b22116e6c2ddf9efd6e33d536f1a0124b0a55bae884ed93481529c76b6a"
             "d0c515f4d1cdd4fdac4f02aa")
    ok2 = AES(_h("0f0e0d0c0b0a09080706050403020100"))
    assert ocb_seal(ok2, _h("bbaa9988776655443322110d"), d40, d40, 12) == (out[:-12], out[-12:]), "OCB 96"
    assert ocb_open(ok2, _h("bbaa9988776655443322110d"), d40, out[:-12], 12) == (d40, out[-12:])

    def ocb_iter(keylen, taglen):
        key = AES(bytes(keylen // 8 - 1) + bytes([taglen]))
        t = taglen // 8
        acc = []
        for i in range(128):
            s = bytes(i)
            for j, (a, p) in enumerate(((s, s), (b"", s), (s, b""))):
                n = (3 * i + 1 + j).to_bytes(12, "big")
                ct, tg = ocb_seal(key, n, a, p, t)
                acc.append(ct + tg)
        return ocb_seal(key, (385).to_bytes(12, "big"), b"".join(acc), b"", t)[1]

    assert ocb_iter(128, 128) == _h("67e944d23256c5e0b6c61fa22fdf1ea2"), "OCB iter 128/128"
    assert ocb_iter(192, 96) == _h("05d56ead2752c86be6932c5e"), "OCB iter 192/96"
    assert ocb_iter(256, 64) == _h("7d4ea5d445501cbe"), "OCB iter 256/64"

    # ---- Poly1305: RFC 8439 2.5.2, A.3; Poly1305-AES paper --------------------------------
    assert poly1305(_h("85d6be7857556d337f4452fe42d506a80103808afb0db2fd4abff6af4149f51b"),
                    b"Cryptographic Forum Research Group") == _h("a8061dc1305136c6c22b8baf0c0127a9")
    assert poly1305(b"this is 32-byte key for Poly1305", bytes(32)) == _h("49ec78090e481ec6c26b33b91ccc0307")
    assert poly1305(b"this is 32-byte key for Poly1305", b"Hello world!") == _h("a6f745008f81c916a20dcc74eef2b2f0")
    assert poly1305(_h("02" + "00" * 31), _h("ff" * 16)) == _h("03" + "00" * 15)            # A.3 #5
    assert poly1305(_h("02" + "00" * 15 + "ff" * 16), _h("02" + "00" * 15)) == _h("03" + "00" * 15)  # A.3 #6
    assert poly1305(_h("01" + "00" * 31), _h("ff" * 16 + "f0" + "ff" * 15 + "11" + "00" * 15)) == \
        _h("05" + "00" * 15)                                                               # A.3 #7
    assert poly1305(_h("01" + "00" * 31), _h("ff" * 16 + "fb" + "fe" * 15 + "01" * 16)) == bytes(16)  # A.3 #8
    assert poly1305(_h("02" + "00" * 31), _h("fd" + "ff" * 15)) == _h("fa" + "ff" * 15)      # A.3 #9
    p1305_aes = [
        ("ec074c835580741701425b623235add6851fc40c3467ac0be05cc20404f3f700", "f3f6",
         "fb447350c4e868c52ac3275cf9d4327e", "f4c633c3044fc145f84f335cb81953de"),
        ("75deaa25c09f208e1dc4ce6b5cad3fbfa0f3080000f46400d0c7e9076c834403", "",
         "61ee09218d29b0aaed7e154a2c5509cc", "dd3fab2251f11ac759f0887129cc2ee7"),
        ("6acb5f61a7176dd320c5c1eb2edcdc7448443d0bb0d21109c89a100b5ce2c208",
         "663cea190ffb83d89593f3f476b6bc24d7e679107ea26adb8caf6652d0656136",
         "ae212a55399729595dea458bc621ff0e", "0ee1c16bb73f0f4fd19881753c01cdbe"),
    ]
    for kk, mm, nn, tt in p1305_aes:
        assert poly1305_cipher_mac("AES", _h(kk), _h(nn), _h(mm)) == _h(tt), "Poly1305-AES"
    # RFC 8439 A.4 #1, #2 (Poly1305 key generation with ChaCha20) via the MAC of 15 x ff
    assert poly1305_cipher_mac("ChaCha20", bytes(32), bytes(12), b"\xff" * 15) == \
        _h("13cc5bbadc36b03a5163928f0bcb65aa")
    assert poly1305_cipher_mac("ChaCha20", bytes(31) + b"\x01", bytes(11) + b"\x02", b"\xff" * 15) == \
        _h("0baf33c1d6df211bdd50a6767e98e00a")
    assert poly1305_cipher_mac("ChaCha20", bytes(31) + b"\x01", bytes(7) + b"\x02", b"\xff" * 15) == \
        _h("0baf33c1d6df211bdd50a6767e98e00a")

    # ---- ChaCha20-Poly1305: RFC 8439 2.8.2; XChaCha20-Poly1305 draft A.3.1 -----------------
    sun = (b"Ladies and Gentlemen of the class of '99: If I could offer you only one tip "
           b"for the future, sunscreen would be it.")
    kk = _h("808182838485868788898a8b8c8d8e8f909192939495969798999a9b9c9d9e9f")
    aa = _h("50515253c0c1c2c3c4c5c6c7")
    ctv = _h("d31a8d34648e60db7b86afbc53ef7ec2a4aded51296e08fea9e2b5a736ee62d6"
             "3dbea45e8ca9671282fafb69da92728b1a71de0a9e060b2905d6a5b67ecd3b36"
             "92ddbd7f2d778b8c9803aee328091b58fab324e4fad675945585808b4831d7bc"
             "3ff4def08e4b7a9de576d26586cec64b6116")
    tgv = _h("1ae10b594f09e26a7e902ecbd0600691")
    nn = _h("070000004041424344454647")
    assert chacha20_poly1305_seal(kk, nn, aa, sun) == (ctv, tgv), "ChaCha20-Poly1305"
    assert chacha20_poly1305_open(kk, nn, aa, ctv) == (sun, tgv)
    xn = _h("404142434445464748494a4b4c4d4e4f5051525354555657")
    xct = _h("bd6d179d3e83d43b9576579493c0e939572a1700252bfaccbed2902c21396cbb"
             "731c7f1b0b4aa6440bf3a82f4eda7e39ae64c6708c54c216cb96b72e1213b452"
             "2f8c9ba40db5d945b11b69b982c1bb9e3f3fac2bc369488f76b2383565d3fff9"
             "21f9664c97637da9768812f615c68b13b52e")
    xtg = _h("c0875924c1c7987947deafd8780acf49")
    assert chacha20_poly1305_seal(kk, xn, aa, sun) == (xct, xtg), "XChaCha20-Poly1305"
    assert chacha20_poly1305_open(kk, xn, aa, xct) == (sun, xtg)
    # 8-byte nonce == RFC 8439 with 00000000 || nonce8 (documented library semantics)
    assert chacha20_poly1305_seal(kk, nn[4:], aa, sun) == \
        chacha20_poly1305_seal(kk, bytes(4) + nn[4:], aa, sun)

    # ---- KW: RFC 3394 sec 4.1-4.6 -------------------------------------------------------------
    kd = "00112233445566778899aabbccddeeff000102030405060708090a0b0c0d0e0f"
    kek = "000102030405060708090a0b0c0d0e0f101112131415161718191a1b1c1d1e1f"
    kw_cases = [
        (16, 16, "1fa68b0a8112b447aef34bd8fb5a7b829d3e862371d2cfe5"),
        (24, 16, "96778b25ae6ca435f92b5b97c050aed2468ab8a17ad84e5d"),
        (32, 16, "64e8c3f9ce0f5ba263e9777905818a2a93c8191e7d6e8ae7"),
        (24, 24, "031d33264e15d33268f24ec260743edce1c6c7ddee725a936ba814915c6762d2"),
        (32, 24, "a8f9bc1612c68b3ff6e6f4fbe30e71e4769c8b80a32cb8958cd5d17d6b254da1"),
        (32, 32, "28c9f404c4b810f4cbccb35cfb87f8263f5786e2d80ed326cbc7f0e71a99f43bfb988b9b7a02dd21"),
    ]
    for klen, dlen, out in kw_cases:
        c = AES(_h(kek)[:klen])
        assert kw_wrap(c, _h(kd)[:dlen]) == _h(out), "KW wrap"
        assert kw_unwrap(c, _h(out)) == _h(kd)[:dlen], "KW unwrap"
        assert kw_unwrap_raw(c, _h(out)) == (KW_ICV1, _h(kd)[:dlen])
        bad = bytearray(_h(out)); bad[-1] ^= 1
        try:
            kw_unwrap(c, bytes(bad))
            raise AssertionError("KW accepted a corrupted key")
        except ValueError:
            pass
    # ---- KWP: RFC 5649 sec 6 ----------------------------------------------------------------------
    c = AES(_h("5840df6e29b02af1ab493b705bf16ea1ae8338f4dcc176a8"))
    w20 = _h("138bdeaa9b8fa7fc61f97742e72248ee5ae6ae5360d1ae6a5f54f373fa543b6a")
    w7 = _h("afbeb0f07dfbf5419200f2ccb50bb24f")
    assert kwp_wrap(c, _h("c37b7e6492584340bed12207808941155068f738")) == w20, "KWP 20"
    assert kwp_unwrap(c, w20) == _h("c37b7e6492584340bed12207808941155068f738")
    assert kwp_wrap(c, _h("466f7250617369")) == w7, "KWP 7"
    assert kwp_unwrap(c, w7) == _h("466f7250617369")
    assert kw_unwrap_raw(c, w7) == (_h("a65959a600000007"), _h("466f7250617369") + b"\x00")
    # malformed wrapped keys must be rejected
    for a, p in ((_h("a65959a600000007"), _h("466f725061736901")),     # non-zero padding
                 (_h("a65959a600000009"), _h("466f725061736900")),     # MLI too large
                 (_h("a65959a600000000"), _h("466f725061736900")),     # MLI zero
                 (_h("a65959a700000007"), _h("466f725061736900")),     # wrong ICV2
                 (_h("a65959a600000008"), bytes(16)),                  # MLI too small for n = 2
                 (_h("a65959a600000011"), bytes(16))):                 # MLI too large for n = 2
        try:
            kwp_unwrap(c, kw_wrap_raw(c, a, p))
            raise AssertionError("KWP accepted malformed input")
        except ValueError:
            pass
    assert kwp_unwrap(c, kw_wrap_raw(c, _h("a65959a600000009"), bytes(16))) == bytes(9)
    return True


if __name__ == "__main__":
    import time
    t0 = time.time()
    self_test()
    print("modes.self_test OK in %.3f s" % (time.time() - t0))
