"""Independent reference model for block padding and RFC 1751 key words.

Pure Python, stdlib only; written from the definitions of the schemes:

* 'pkcs7'   RFC 5652 section 6.3 (= PKCS#5/PKCS#7 padding): k - (l mod k)
            octets, each of value k - (l mod k).  Defined only for k < 256.
* 'x923'    ANSI X9.23 / X.923: zero octets followed by one octet holding the
            number of padding octets (1..k).  Defined only for k < 256.
* 'iso7816' ISO/IEC 7816-4 (= ISO/IEC 9797-1 padding method 2): one octet
            0x80 followed by as few 0x00 octets as needed (possibly none).
            Defined for every k >= 1.

All three always add at least one octet, at most one block.

Domain mirrored from the library documentation (Crypto.Util.Padding): data is
a byte string, block_size a positive integer; the documentation states no
upper bound.  The schemes themselves bound it: a pad length must fit in one
octet for pkcs7 and x923, hence block_size 1..255 there (MAX_BLOCK_SIZE).
Outside that range pad()/unpad() raise ValueError.

RFC 1751: key_to_english(bytes) -> str, english_to_key(str) -> bytes.
"""

__all__ = ['pad', 'unpad', 'STYLES', 'MAX_BLOCK_SIZE', 'key_to_english',
           'english_to_key', 'WORDLIST', 'self_test']

STYLES = ('pkcs7', 'x923', 'iso7816')

# largest block size for which the style is defined (None: unbounded)
MAX_BLOCK_SIZE = {'pkcs7': 255, 'x923': 255, 'iso7816': None}


def _check_args(data, block_size, style):
    if style not in STYLES:
        raise ValueError("Unknown padding style %r" % (style,))
    if not isinstance(data, (bytes, bytearray, memoryview)):
        raise TypeError("data must be a byte string")
    if isinstance(block_size, bool) or not isinstance(block_size, int):
        raise TypeError("block_size must be an integer")
    if block_size < 1:
        raise ValueError("block_size must be positive")
    limit = MAX_BLOCK_SIZE[style]
    if limit is not None and block_size > limit:
        raise ValueError("block_size %d too large for style %s" %
                         (block_size, style))
    return bytes(data)


def pad(data, block_size, style='pkcs7'):
    """Return data + padding; len(result) is the smallest multiple of
    block_size that is > len(data)."""
    data = _check_args(data, block_size, style)
    n = block_size - len(data) % block_size        # 1..block_size
    if style == 'pkcs7':
        return data + bytes([n]) * n
    if style == 'x923':
        return data + b'\x00' * (n - 1) + bytes([n])
    return data + b'\x80' + b'\x00' * (n - 1)


def unpad(padded, block_size, style='pkcs7'):
    """Inverse of pad().  Raises ValueError for every input that is not the
    image of pad(): empty input, length not a multiple of block_size, pad
    length 0 or > block_size, wrong filler octets, missing 0x80 marker."""
    padded = _check_args(padded, block_size, style)
    total = len(padded)
    if total == 0:
        raise ValueError("Zero-length input cannot be unpadded")
    if total % block_size:
        raise ValueError("Input length is not a multiple of the block size")
    if style in ('pkcs7', 'x923'):
        n = padded[-1]
        if n < 1 or n > block_size:
            raise ValueError("Invalid padding length octet")
        body, tail = padded[:total - n], padded[total - n:]
        if style == 'pkcs7':
            if tail != bytes([n]) * n:
                raise ValueError("PKCS#7 padding octets are not all equal")
        else:
            if tail[:-1] != b'\x00' * (n - 1):
                raise ValueError("X.923 filler octets are not zero")
        return body
    # iso7816: strip trailing zeros (at most block_size - 1), then 0x80
    i = total - 1
    while i >= 0 and padded[i] == 0x00:
        i -= 1
    if i < 0 or padded[i] != 0x80:
        raise ValueError("ISO 7816-4 marker 0x80 not found")
    if total - i > block_size:
        raise ValueError("ISO 7816-4 padding longer than one block")
    return padded[:i]


# ---------------------------------------------------------------------------
# RFC 1751 - A Convention for Human-Readable 128-bit Keys
# ---------------------------------------------------------------------------
# The dictionary is data without a generating rule (RFC 1751 appendix).

WORDLIST = tuple((
    "A ABE ACE ACT AD ADA ADD AGO AID AIM AIR ALL ALP AM AMY AN ANA AND ANN "
    "ANT ANY APE APS APT ARC ARE ARK ARM ART AS ASH ASK AT ATE AUG AUK AVE "
    "AWE AWK AWL AWN AX AYE BAD BAG BAH BAM BAN BAR BAT BAY BE BED BEE BEG "
    "BEN BET BEY BIB BID BIG BIN BIT BOB BOG BON BOO BOP BOW BOY BUB BUD BUG "
    "BUM BUN BUS BUT BUY BY BYE CAB CAL CAM CAN CAP CAR CAT CAW COD COG COL "
    "CON COO COP COT COW COY CRY CUB CUE CUP CUR CUT DAB DAD DAM DAN DAR DAY "
    "DEE DEL DEN DES DEW DID DIE DIG DIN DIP DO DOE DOG DON DOT DOW DRY DUB "
    "DUD DUE DUG DUN EAR EAT ED EEL EGG EGO ELI ELK ELM ELY EM END EST ETC "
    "EVA EVE EWE EYE FAD FAN FAR FAT FAY FED FEE FEW FIB FIG FIN FIR FIT FLO "
    "FLY FOE FOG FOR FRY FUM FUN FUR GAB GAD GAG GAL GAM GAP GAS GAY GEE GEL "
    "GEM GET GIG GIL GIN GO GOT GUM GUN GUS GUT GUY GYM GYP HA HAD HAL HAM "
    "HAN HAP HAS HAT HAW HAY HE HEM HEN HER HEW HEY HI HID HIM HIP HIS HIT HO "
    "HOB HOC HOE HOG HOP HOT HOW HUB HUE HUG HUH HUM HUT I ICY IDA IF IKE ILL "
    "INK INN IO ION IQ IRA IRE IRK IS IT ITS IVY JAB JAG JAM JAN JAR JAW JAY "
    "JET JIG JIM JO JOB JOE JOG JOT JOY JUG JUT KAY KEG KEN KEY KID KIM KIN "
    "KIT LA LAB LAC LAD LAG LAM LAP LAW LAY LEA LED LEE LEG LEN LEO LET LEW "
    "LID LIE LIN LIP LIT LO LOB LOG LOP LOS LOT LOU LOW LOY LUG LYE MA MAC "
    "MAD MAE MAN MAO MAP MAT MAW MAY ME MEG MEL MEN MET MEW MID MIN MIT MOB "
    "MOD MOE MOO MOP MOS MOT MOW MUD MUG MUM MY NAB NAG NAN NAP NAT NAY NE "
    "NED NEE NET NEW NIB NIL NIP NIT NO NOB NOD NON NOR NOT NOV NOW NU NUN "
    "NUT O OAF OAK OAR OAT ODD ODE OF OFF OFT OH OIL OK OLD ON ONE OR ORB ORE "
    "ORR OS OTT OUR OUT OVA OW OWE OWL OWN OX PA PAD PAL PAM PAN PAP PAR PAT "
    "PAW PAY PEA PEG PEN PEP PER PET PEW PHI PI PIE PIN PIT PLY PO POD POE "
    "POP POT POW PRO PRY PUB PUG PUN PUP PUT QUO RAG RAM RAN RAP RAT RAW RAY "
    "REB RED REP RET RIB RID RIG RIM RIO RIP ROB ROD ROE RON ROT ROW ROY RUB "
    "RUE RUG RUM RUN RYE SAC SAD SAG SAL SAM SAN SAP SAT SAW SAY SEA SEC SEE "
    "SEN SET SEW SHE SHY SIN SIP SIR SIS SIT SKI SKY SLY SO SOB SOD SON SOP "
    "SOW SOY SPA SPY SUB SUD SUE SUM SUN SUP TAB TAD TAG TAN TAP TAR TEA TED "
    "TEE TEN THE THY TIC TIE TIM TIN TIP TO TOE TOG TOM TON TOO TOP TOW TOY "
    "TRY TUB TUG TUM TUN TWO UN UP US USE VAN VAT VET VIE WAD WAG WAR WAS WAY "
    "WE WEB WED WEE WET WHO WHY WIN WIT WOK WON WOO WOW WRY WU YAM YAP YAW YE "
    "YEA YES YET YOU ABED ABEL ABET ABLE ABUT ACHE ACID ACME ACRE ACTA ACTS "
    "ADAM ADDS ADEN AFAR AFRO AGEE AHEM AHOY AIDA AIDE AIDS AIRY AJAR AKIN "
    "ALAN ALEC ALGA ALIA ALLY ALMA ALOE ALSO ALTO ALUM ALVA AMEN AMES AMID "
    "AMMO AMOK AMOS AMRA ANDY ANEW ANNA ANNE ANTE ANTI AQUA ARAB ARCH AREA "
    "ARGO ARID ARMY ARTS ARTY ASIA ASKS ATOM AUNT AURA AUTO AVER AVID AVIS "
    "AVON AVOW AWAY AWRY BABE BABY BACH BACK BADE BAIL BAIT BAKE BALD BALE "
    "BALI BALK BALL BALM BAND BANE BANG BANK BARB BARD BARE BARK BARN BARR "
    "BASE BASH BASK BASS BATE BATH BAWD BAWL BEAD BEAK BEAM BEAN BEAR BEAT "
    "BEAU BECK BEEF BEEN BEER BEET BELA BELL BELT BEND BENT BERG BERN BERT "
    "BESS BEST BETA BETH BHOY BIAS BIDE BIEN BILE BILK BILL BIND BING BIRD "
    "BITE BITS BLAB BLAT BLED BLEW BLOB BLOC BLOT BLOW BLUE BLUM BLUR BOAR "
    "BOAT BOCA BOCK BODE BODY BOGY BOHR BOIL BOLD BOLO BOLT BOMB BONA BOND "
    "BONE BONG BONN BONY BOOK BOOM BOON BOOT BORE BORG BORN BOSE BOSS BOTH "
    "BOUT BOWL BOYD BRAD BRAE BRAG BRAN BRAY BRED BREW BRIG BRIM BROW BUCK "
    "BUDD BUFF BULB BULK BULL BUNK BUNT BUOY BURG BURL BURN BURR BURT BURY "
    "BUSH BUSS BUST BUSY BYTE CADY CAFE CAGE CAIN CAKE CALF CALL CALM CAME "
    "CANE CANT CARD CARE CARL CARR CART CASE CASH CASK CAST CAVE CEIL CELL "
    "CENT CERN CHAD CHAR CHAT CHAW CHEF CHEN CHEW CHIC CHIN CHOU CHOW CHUB "
    "CHUG CHUM CITE CITY CLAD CLAM CLAN CLAW CLAY CLOD CLOG CLOT CLUB CLUE "
    "COAL COAT COCA COCK COCO CODA CODE CODY COED COIL COIN COKE COLA COLD "
    "COLT COMA COMB COME COOK COOL COON COOT CORD CORE CORK CORN COST COVE "
    "COWL CRAB CRAG CRAM CRAY CREW CRIB CROW CRUD CUBA CUBE CUFF CULL CULT "
    "CUNY CURB CURD CURE CURL CURT CUTS DADE DALE DAME DANA DANE DANG DANK "
    "DARE DARK DARN DART DASH DATA DATE DAVE DAVY DAWN DAYS DEAD DEAF DEAL "
    "DEAN DEAR DEBT DECK DEED DEEM DEER DEFT DEFY DELL DENT DENY DESK DIAL "
    "DICE DIED DIET DIME DINE DING DINT DIRE DIRT DISC DISH DISK DIVE DOCK "
    "DOES DOLE DOLL DOLT DOME DONE DOOM DOOR DORA DOSE DOTE DOUG DOUR DOVE "
    "DOWN DRAB DRAG DRAM DRAW DREW DRUB DRUG DRUM DUAL DUCK DUCT DUEL DUET "
    "DUKE DULL DUMB DUNE DUNK DUSK DUST DUTY EACH EARL EARN EASE EAST EASY "
    "EBEN ECHO EDDY EDEN EDGE EDGY EDIT EDNA EGAN ELAN ELBA ELLA ELSE EMIL "
    "EMIT EMMA ENDS ERIC EROS EVEN EVER EVIL EYED FACE FACT FADE FAIL FAIN "
    "FAIR FAKE FALL FAME FANG FARM FAST FATE FAWN FEAR FEAT FEED FEEL FEET "
    "FELL FELT FEND FERN FEST FEUD FIEF FIGS FILE FILL FILM FIND FINE FINK "
    "FIRE FIRM FISH FISK FIST FITS FIVE FLAG FLAK FLAM FLAT FLAW FLEA FLED "
    "FLEW FLIT FLOC FLOG FLOW FLUB FLUE FOAL FOAM FOGY FOIL FOLD FOLK FOND "
    "FONT FOOD FOOL FOOT FORD FORE FORK FORM FORT FOSS FOUL FOUR FOWL FRAU "
    "FRAY FRED FREE FRET FREY FROG FROM FUEL FULL FUME FUND FUNK FURY FUSE "
    "FUSS GAFF GAGE GAIL GAIN GAIT GALA GALE GALL GALT GAME GANG GARB GARY "
    "GASH GATE GAUL GAUR GAVE GAWK GEAR GELD GENE GENT GERM GETS GIBE GIFT "
    "GILD GILL GILT GINA GIRD GIRL GIST GIVE GLAD GLEE GLEN GLIB GLOB GLOM "
    "GLOW GLUE GLUM GLUT GOAD GOAL GOAT GOER GOES GOLD GOLF GONE GONG GOOD "
    "GOOF GORE GORY GOSH GOUT GOWN GRAB GRAD GRAY GREG GREW GREY GRID GRIM "
    "GRIN GRIT GROW GRUB GULF GULL GUNK GURU GUSH GUST GWEN GWYN HAAG HAAS "
    "HACK HAIL HAIR HALE HALF HALL HALO HALT HAND HANG HANK HANS HARD HARK "
    "HARM HART HASH HAST HATE HATH HAUL HAVE HAWK HAYS HEAD HEAL HEAR HEAT "
    "HEBE HECK HEED HEEL HEFT HELD HELL HELM HERB HERD HERE HERO HERS HESS "
    "HEWN HICK HIDE HIGH HIKE HILL HILT HIND HINT HIRE HISS HIVE HOBO HOCK "
    "HOFF HOLD HOLE HOLM HOLT HOME HONE HONK HOOD HOOF HOOK HOOT HORN HOSE "
    "HOST HOUR HOVE HOWE HOWL HOYT HUCK HUED HUFF HUGE HUGH HUGO HULK HULL "
    "HUNK HUNT HURD HURL HURT HUSH HYDE HYMN IBIS ICON IDEA IDLE IFFY INCA "
    "INCH INTO IONS IOTA IOWA IRIS IRMA IRON ISLE ITCH ITEM IVAN JACK JADE "
    "JAIL JAKE JANE JAVA JEAN JEFF JERK JESS JEST JIBE JILL JILT JIVE JOAN "
    "JOBS JOCK JOEL JOEY JOHN JOIN JOKE JOLT JOVE JUDD JUDE JUDO JUDY JUJU "
    "JUKE JULY JUNE JUNK JUNO JURY JUST JUTE KAHN KALE KANE KANT KARL KATE "
    "KEEL KEEN KENO KENT KERN KERR KEYS KICK KILL KIND KING KIRK KISS KITE "
    "KLAN KNEE KNEW KNIT KNOB KNOT KNOW KOCH KONG KUDO KURD KURT KYLE LACE "
    "LACK LACY LADY LAID LAIN LAIR LAKE LAMB LAME LAND LANE LANG LARD LARK "
    "LASS LAST LATE LAUD LAVA LAWN LAWS LAYS LEAD LEAF LEAK LEAN LEAR LEEK "
    "LEER LEFT LEND LENS LENT LEON LESK LESS LEST LETS LIAR LICE LICK LIED "
    "LIEN LIES LIEU LIFE LIFT LIKE LILA LILT LILY LIMA LIMB LIME LIND LINE "
    "LINK LINT LION LISA LIST LIVE LOAD LOAF LOAM LOAN LOCK LOFT LOGE LOIS "
    "LOLA LONE LONG LOOK LOON LOOT LORD LORE LOSE LOSS LOST LOUD LOVE LOWE "
    "LUCK LUCY LUGE LUKE LULU LUND LUNG LURA LURE LURK LUSH LUST LYLE LYNN "
    "LYON LYRA MACE MADE MAGI MAID MAIL MAIN MAKE MALE MALI MALL MALT MANA "
    "MANN MANY MARC MARE MARK MARS MART MARY MASH MASK MASS MAST MATE MATH "
    "MAUL MAYO MEAD MEAL MEAN MEAT MEEK MEET MELD MELT MEMO MEND MENU MERT "
    "MESH MESS MICE MIKE MILD MILE MILK MILL MILT MIMI MIND MINE MINI MINK "
    "MINT MIRE MISS MIST MITE MITT MOAN MOAT MOCK MODE MOLD MOLE MOLL MOLT "
    "MONA MONK MONT MOOD MOON MOOR MOOT MORE MORN MORT MOSS MOST MOTH MOVE "
    "MUCH MUCK MUDD MUFF MULE MULL MURK MUSH MUST MUTE MUTT MYRA MYTH NAGY "
    "NAIL NAIR NAME NARY NASH NAVE NAVY NEAL NEAR NEAT NECK NEED NEIL NELL "
    "NEON NERO NESS NEST NEWS NEWT NIBS NICE NICK NILE NINA NINE NOAH NODE "
    "NOEL NOLL NONE NOOK NOON NORM NOSE NOTE NOUN NOVA NUDE NULL NUMB OATH "
    "OBEY OBOE ODIN OHIO OILY OINT OKAY OLAF OLDY OLGA OLIN OMAN OMEN OMIT "
    "ONCE ONES ONLY ONTO ONUS ORAL ORGY OSLO OTIS OTTO OUCH OUST OUTS OVAL "
    "OVEN OVER OWLY OWNS QUAD QUIT QUOD RACE RACK RACY RAFT RAGE RAID RAIL "
    "RAIN RAKE RANK RANT RARE RASH RATE RAVE RAYS READ REAL REAM REAR RECK "
    "REED REEF REEK REEL REID REIN RENA REND RENT REST RICE RICH RICK RIDE "
    "RIFT RILL RIME RING RINK RISE RISK RITE ROAD ROAM ROAR ROBE ROCK RODE "
    "ROIL ROLL ROME ROOD ROOF ROOK ROOM ROOT ROSA ROSE ROSS ROSY ROTH ROUT "
    "ROVE ROWE ROWS RUBE RUBY RUDE RUDY RUIN RULE RUNG RUNS RUNT RUSE RUSH "
    "RUSK RUSS RUST RUTH SACK SAFE SAGE SAID SAIL SALE SALK SALT SAME SAND "
    "SANE SANG SANK SARA SAUL SAVE SAYS SCAN SCAR SCAT SCOT SEAL SEAM SEAR "
    "SEAT SEED SEEK SEEM SEEN SEES SELF SELL SEND SENT SETS SEWN SHAG SHAM "
    "SHAW SHAY SHED SHIM SHIN SHOD SHOE SHOT SHOW SHUN SHUT SICK SIDE SIFT "
    "SIGH SIGN SILK SILL SILO SILT SINE SING SINK SIRE SITE SITS SITU SKAT "
    "SKEW SKID SKIM SKIN SKIT SLAB SLAM SLAT SLAY SLED SLEW SLID SLIM SLIT "
    "SLOB SLOG SLOT SLOW SLUG SLUM SLUR SMOG SMUG SNAG SNOB SNOW SNUB SNUG "
    "SOAK SOAR SOCK SODA SOFA SOFT SOIL SOLD SOME SONG SOON SOOT SORE SORT "
    "SOUL SOUR SOWN STAB STAG STAN STAR STAY STEM STEW STIR STOW STUB STUN "
    "SUCH SUDS SUIT SULK SUMS SUNG SUNK SURE SURF SWAB SWAG SWAM SWAN SWAT "
    "SWAY SWIM SWUM TACK TACT TAIL TAKE TALE TALK TALL TANK TASK TATE TAUT "
    "TEAL TEAM TEAR TECH TEEM TEEN TEET TELL TEND TENT TERM TERN TESS TEST "
    "THAN THAT THEE THEM THEN THEY THIN THIS THUD THUG TICK TIDE TIDY TIED "
    "TIER TILE TILL TILT TIME TINA TINE TINT TINY TIRE TOAD TOGO TOIL TOLD "
    "TOLL TONE TONG TONY TOOK TOOL TOOT TORE TORN TOTE TOUR TOUT TOWN TRAG "
    "TRAM TRAY TREE TREK TRIG TRIM TRIO TROD TROT TROY TRUE TUBA TUBE TUCK "
    "TUFT TUNA TUNE TUNG TURF TURN TUSK TWIG TWIN TWIT ULAN UNIT URGE USED "
    "USER USES UTAH VAIL VAIN VALE VARY VASE VAST VEAL VEDA VEIL VEIN VEND "
    "VENT VERB VERY VETO VICE VIEW VINE VISE VOID VOLT VOTE WACK WADE WAGE "
    "WAIL WAIT WAKE WALE WALK WALL WALT WAND WANE WANG WANT WARD WARM WARN "
    "WART WASH WAST WATS WATT WAVE WAVY WAYS WEAK WEAL WEAN WEAR WEED WEEK "
    "WEIR WELD WELL WELT WENT WERE WERT WEST WHAM WHAT WHEE WHEN WHET WHOA "
    "WHOM WICK WIFE WILD WILL WIND WINE WING WINK WINO WIRE WISE WISH WITH "
    "WOLF WONT WOOD WOOL WORD WORE WORK WORM WORN WOVE WRIT WYNN YALE YANG "
    "YANK YARD YARN YAWL YAWN YEAH YEAR YELL YOGA YOKE "
).split())

_WORD_INDEX = dict((w, i) for i, w in enumerate(WORDLIST))


def _parity(block8):
    """RFC 1751: 'the 64 bits of key are followed by 2 bits of parity: the
    sum of all the 2-bit pairs of the key, low 2 bits kept'."""
    v = int.from_bytes(block8, 'big')
    p = 0
    for i in range(32):
        p += (v >> (2 * i)) & 3
    return p & 3


def key_to_english(key):
    """Each 64-bit block -> 6 words (6 x 11 bits = 64 key bits + 2 parity).
    Blocks are joined with single spaces."""
    key = bytes(key)
    if len(key) % 8:
        raise ValueError("The length of the key must be a multiple of 8")
    words = []
    for off in range(0, len(key), 8):
        block = key[off:off + 8]
        v = (int.from_bytes(block, 'big') << 2) | _parity(block)
        for i in range(5, -1, -1):
            words.append(WORDLIST[(v >> (11 * i)) & 0x7FF])
    return " ".join(words)


def english_to_key(s, lenient_digits=False):
    """Inverse of key_to_english.  Words are matched case-insensitively and
    may be separated by any whitespace.  ValueError when the number of words
    is not a multiple of 6, when a word is not in the dictionary or when the
    parity bits do not match.

    lenient_digits=True additionally applies the normalisation of the RFC's
    reference code (1 -> L, 0 -> O, 5 -> S)."""
    if isinstance(s, (bytes, bytearray)):
        s = bytes(s).decode('ascii')
    words = s.upper().split()
    if lenient_digits:
        words = [w.replace('1', 'L').replace('0', 'O').replace('5', 'S')
                 for w in words]
    if len(words) % 6:
        raise ValueError("The number of words must be a multiple of 6")
    out = b''
    for off in range(0, len(words), 6):
        v = 0
        for w in words[off:off + 6]:
            if w not in _WORD_INDEX:
                raise ValueError("Word %r is not in the RFC 1751 dictionary"
                                 % (w,))
            v = (v << 11) | _WORD_INDEX[w]
        block = (v >> 2).to_bytes(8, 'big')
        if _parity(block) != (v & 3):
            raise ValueError("Parity error")
        out += block
    return out


# ---------------------------------------------------------------------------

def self_test():
    H = bytes.fromhex
    # -- padding: hand computed vectors ------------------------------------
    assert pad(b'', 4, 'pkcs7') == H('04040404')
    assert pad(b'\x01', 4, 'pkcs7') == H('01030303')
    assert pad(b'\x01\x02\x03', 4, 'pkcs7') == H('01020301')
    assert pad(b'\x01\x02\x03\x04', 4, 'pkcs7') == H('0102030404040404')
    assert pad(b'', 4, 'x923') == H('00000004')
    assert pad(b'\x01', 4, 'x923') == H('01000003')
    assert pad(b'\x01\x02\x03\x04', 4, 'x923') == H('0102030400000004')
    assert pad(b'', 4, 'iso7816') == H('80000000')
    assert pad(b'\x01\x02\x03', 4, 'iso7816') == H('01020380')
    assert pad(b'\x01\x02\x03\x04', 4, 'iso7816') == H('0102030480000000')
    assert pad(b'YELLOW SUBMARINE', 20) == b'YELLOW SUBMARINE\x04\x04\x04\x04'
    assert pad(b'', 1, 'pkcs7') == b'\x01' and pad(b'a', 1, 'x923') == b'a\x01'
    assert pad(b'a', 1, 'iso7816') == b'a\x80'
    assert len(pad(b'', 255, 'pkcs7')) == 255
    assert pad(b'a' * 10, 300, 'iso7816') == b'a' * 10 + b'\x80' + bytes(289)

    def rejects(fn, *a):
        try:
            fn(*a)
        except ValueError:
            return True
        return False

    assert rejects(pad, b'', 256, 'pkcs7') and rejects(pad, b'', 256, 'x923')
    assert rejects(pad, b'', 0, 'pkcs7') and rejects(pad, b'', -8, 'iso7816')
    assert rejects(pad, b'', 8, 'pkcs5') and rejects(unpad, b'\x01', 1, 'zero')
    for style in STYLES:
        assert rejects(unpad, b'', 8, style)
        assert rejects(unpad, b'\x01' * 7, 8, style)
        assert rejects(unpad, b'\x01' * 9, 8, style)
    # pkcs7
    assert unpad(H('0102030404040404'), 4, 'pkcs7') == H('01020304')
    assert unpad(H('04040404'), 4, 'pkcs7') == b''
    assert rejects(unpad, H('01020300'), 4, 'pkcs7')          # length 0
    assert rejects(unpad, H('0102030405050505'), 4, 'pkcs7')  # > block
    assert rejects(unpad, H('01020302'), 4, 'pkcs7')          # wrong filler
    assert rejects(unpad, H('05050505'), 4, 'pkcs7')
    assert unpad(H('0505050505050505'), 8, 'pkcs7') == H('050505')
    # x923
    assert unpad(H('01000003'), 4, 'x923') == b'\x01'
    assert unpad(H('00000004'), 4, 'x923') == b''
    assert rejects(unpad, H('01000103'), 4, 'x923')           # filler not 0
    assert rejects(unpad, H('01020300'), 4, 'x923')
    assert rejects(unpad, H('0000000000000005'), 4, 'x923')
    assert unpad(H('0000000000000005'), 8, 'x923') == H('000000')
    # iso7816
    assert unpad(H('01020380'), 4, 'iso7816') == H('010203')
    assert unpad(H('80000000'), 4, 'iso7816') == b''
    assert unpad(H('8080'), 2, 'iso7816') == b'\x80'
    assert rejects(unpad, H('01020304'), 4, 'iso7816')        # no marker
    assert rejects(unpad, H('00000000'), 4, 'iso7816')
    assert rejects(unpad, H('01020380' '00000000'), 4, 'iso7816')  # 5 octets
    assert rejects(unpad, H('01020381'), 4, 'iso7816')
    assert unpad(H('0102038000000000'), 8, 'iso7816') == H('010203')
    for style in STYLES:
        for bs in (1, 2, 7, 8, 16, 255):
            for ln in range(0, 2 * bs + 2, max(1, bs // 5)):
                d = bytes((i * 7 + 3) & 0xFF for i in range(ln))
                p = pad(d, bs, style)
                assert len(p) % bs == 0 and 0 < len(p) - ln <= bs
                assert unpad(p, bs, style) == d

    # -- RFC 1751 -----------------------------------------------------------
    assert len(WORDLIST) == 2048 and len(_WORD_INDEX) == 2048
    assert all(1 <= len(w) <= 4 and w.isalpha() and w.isupper()
               for w in WORDLIST)
    # the dictionary is sorted by (length <= 3 first, then 4 letter words)
    assert all(len(w) <= 3 for w in WORDLIST[:571])
    assert all(len(w) == 4 for w in WORDLIST[571:])
    assert list(WORDLIST[:571]) == sorted(WORDLIST[:571])
    assert list(WORDLIST[571:]) == sorted(WORDLIST[571:])
    # examples from RFC 1751
    rfc = [
        ('EB33F77EE73D4053', 'TIDE ITCH SLOW REIN RULE MOT'),
        ('CCAC2AED591056BE4F90FD441C534766',
         'RASH BUSH MILK LOOK BAD BRIM AVID GAFF BAIT ROT POD LOVE'),
        ('EFF81F9BFBC65350920CDD7416DE8009',
         'TROD MUTE TAIL WARM CHAR KONG HAAG CITY BORE O TEAL AWL'),
    ]
    for hx, eng in rfc:
        assert key_to_english(H(hx)) == eng, (hx, key_to_english(H(hx)))
        assert english_to_key(eng) == H(hx)
        assert english_to_key(eng.lower().replace(' ', '\n  ')) == H(hx)
    assert key_to_english(b'') == '' and english_to_key('') == b''
    assert rejects(key_to_english, b'1234567')
    assert rejects(english_to_key, 'TIDE ITCH SLOW REIN RULE')        # 5 words
    assert rejects(english_to_key, 'TIDE ITCH SLOW REIN RULE MOP')    # parity
    assert rejects(english_to_key, 'TIDE ITCH SLOW REIN RULE XYZZY')  # unknown
    assert rejects(english_to_key, 'T1DE ITCH SLOW REIN RULE MOT')
    assert english_to_key('TIDE ITCH 5LOW REIN RU1E M0T', True) == \
        H('EB33F77EE73D4053')
    for i in range(64):
        k = bytes((i * 37 + j * 11) & 0xFF for j in range(8 * (1 + i % 3)))
        assert english_to_key(key_to_english(k)) == k
    return True


if __name__ == '__main__':
    import time
    t0 = time.time()
    self_test()
    print("padding.self_test OK (%.3f s)" % (time.time() - t0))
