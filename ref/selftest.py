"""Runs the embedded known-answer self-tests of every reference model."""
import importlib, pkgutil, sys, time, os

def main():
    here = os.path.dirname(os.path.abspath(__file__))
    bad = 0
    for m in sorted(pkgutil.iter_modules([here])):
        if m.name.startswith(("devcheck", "selftest", "_")):
            continue
        t0 = time.time()
        try:
            mod = importlib.import_module("ref." + m.name)
            st = getattr(mod, "self_test", None)
            if st:
                st()
            print("ref.%s ok (%.2fs)" % (m.name, time.time() - t0))
        except Exception as e:      # noqa
            bad += 1
            print("ref.%s SELF-TEST FAILED: %r" % (m.name, e))
    return 1 if bad else 0

if __name__ == "__main__":
    sys.exit(main())
