"""Independent reference model for DSA / ECDSA / EdDSA signatures.

Pure Python, stdlib only (hashlib / hmac).  Written from FIPS 186-4 (DSA 4.6,
4.7; ECDSA 6.4 + ANS X9.62 / SEC1 4.1), RFC 6979 (deterministic nonces),
RFC 8032 (EdDSA), ITU-T X.690 (DER).

Public API
----------
hash_new(hash_name, data=b'') -> hashlib object    (name normalisation)
hash_len(hash_name) -> int
bits2int(b, qlen) -> int ; int2octets(x, rlen) -> bytes ; bits2octets(b, q) -> bytes
rfc6979_k(q, x, hash_bytes, hash_name, extra=b'') -> int
rfc6979_k_candidates(q, x, hash_bytes, hash_name, extra=b'') -> iterator of int

ecdsa_sign(curve, d, hash_bytes, k) -> (r, s)       ValueError if r == 0 or s == 0
ecdsa_verify(curve, Q, hash_bytes, r, s) -> bool
ecdsa_sign_rfc6979(curve, d, hash_bytes, hash_name) -> (r, s)
dsa_sign(p, q, g, x, hash_bytes, k) -> (r, s)
dsa_verify(p, q, g, y, hash_bytes, r, s) -> bool
dsa_sign_rfc6979(p, q, g, x, hash_bytes, hash_name) -> (r, s)
dsa_check_domain(p, q, g) -> list[str]              violated invariants

encode_sig_binary(r, s, order) -> bytes ; decode_sig_binary(sig, order) -> (r, s) | None
encode_sig_der(r, s) -> bytes ; decode_der_sig(sig) -> (r, s) | None   (strict DER)
encode_sig(r, s, order, encoding) / decode_sig(sig, order, encoding)   'binary' | 'der'

ed25519_sign(seed32, msg, ctx=None, ph=False, prehashed=False, force_dom=False) -> bytes64
ed25519_verify(pub32, msg, sig64, ctx=None, ph=False, prehashed=False, force_dom=False)
        -> dict(valid_cofactored, valid_cofactorless, reason)
ed448_sign(seed57, msg, ctx=None, ph=False, prehashed=False) -> bytes114
ed448_verify(pub57, msg, sig114, ctx=None, ph=False, prehashed=False) -> dict(...)

EdDSA variant selection (mirrors Crypto.Signature.eddsa, see its docstrings):
  library eddsa.new(key, 'rfc8032', context=C).sign(X)
    X bytes,        C None/b''  -> Ed25519 (pure)       model: ctx=None, ph=False
    X bytes,        C non-empty -> Ed25519ctx           model: ctx=C, ph=False
    X SHA512 object             -> Ed25519ph (any C)    model: ctx=C, ph=True, msg=message
                                                        (or prehashed=True, msg=X.digest())
    Ed448: X bytes -> Ed448 (dom4(0, C) always present), X SHAKE256 object ->
    Ed448ph with PH(M) = SHAKE256(M, 64).
  RFC 8032 also defines Ed25519ctx with an EMPTY context (discouraged); the
  library cannot express it; the model produces it with force_dom=True.
"""

import hashlib
import hmac

from . import ec

__all__ = [
    "hash_new", "hash_len", "bits2int", "int2octets", "bits2octets",
    "rfc6979_k", "rfc6979_k_candidates",
    "ecdsa_sign", "ecdsa_verify", "ecdsa_sign_rfc6979",
    "dsa_sign", "dsa_verify", "dsa_sign_rfc6979", "dsa_check_domain",
    "encode_sig_binary", "decode_sig_binary", "encode_sig_der",
    "decode_der_sig", "encode_sig", "decode_sig",
    "ed25519_sign", "ed25519_verify", "ed448_sign", "ed448_verify",
    "self_test",
]


# ---------------------------------------------------------------------------
# hash name handling
# ---------------------------------------------------------------------------

_HASH_ALIASES = {
    "sha1": "sha1", "sha224": "sha224", "sha256": "sha256", "sha384": "sha384",
    "sha512": "sha512", "sha512224": "sha512_224", "sha512256": "sha512_256",
    "sha3224": "sha3_224", "sha3256": "sha3_256", "sha3384": "sha3_384",
    "sha3512": "sha3_512", "md5": "md5", "ripemd160": "ripemd160",
    "ripemd": "ripemd160", "md4": "md4", "md2": "md2",
    "blake2b": "blake2b", "blake2s": "blake2s",
}


def _canon_hash(name):
    key = name.lower().replace("-", "").replace("_", "").replace("/", "")
    if key not in _HASH_ALIASES:
        raise ValueError("unknown hash %r" % name)
    return _HASH_ALIASES[key]


def hash_new(hash_name, data=b""):
    """hashlib object for names such as 'sha256', 'SHA-256', 'SHA3-256',
    'SHA-512/256', 'sha512_256', 'RIPEMD160'."""
    name = _canon_hash(hash_name)
    try:
        return getattr(hashlib, name)(data)
    except AttributeError:
        return hashlib.new(name, data)


def hash_len(hash_name):
    return hash_new(hash_name).digest_size


# ---------------------------------------------------------------------------
# RFC 6979
# ---------------------------------------------------------------------------

def bits2int(b, qlen):
    """RFC 6979 2.3.2 (== the 'leftmost min(N, outlen) bits' rule of FIPS
    186-4 4.6 / 6.4)."""
    v = int.from_bytes(b, "big")
    blen = 8 * len(b)
    if blen > qlen:
        v >>= blen - qlen
    return v


def int2octets(x, rlen):
    return x.to_bytes(rlen, "big")


def bits2octets(b, q):
    qlen = q.bit_length()
    z1 = bits2int(b, qlen)
    z2 = z1 - q if z1 >= q else z1
    return int2octets(z2, (qlen + 7) // 8)


def rfc6979_k_candidates(q, x, hash_bytes, hash_name, extra=b""):
    """Generator of the successive candidate nonces of RFC 6979 3.2 (step h);
    the first one in [1, q-1] is "the" nonce, further ones are used when the
    signature has r == 0 or s == 0.  `extra` is the optional k' input of
    section 3.6."""
    name = _canon_hash(hash_name)
    hlen = hash_len(name)
    qlen = q.bit_length()
    rlen = (qlen + 7) // 8

    def mac(key, msg):
        return hmac.new(key, msg, lambda d=b"": hash_new(name, d)).digest()

    V = b"\x01" * hlen
    K = b"\x00" * hlen
    seed = int2octets(x, rlen) + bits2octets(hash_bytes, q) + extra
    K = mac(K, V + b"\x00" + seed)
    V = mac(K, V)
    K = mac(K, V + b"\x01" + seed)
    V = mac(K, V)
    while True:
        T = b""
        while 8 * len(T) < qlen:
            V = mac(K, V)
            T += V
        k = bits2int(T, qlen)
        if 1 <= k < q:
            yield k
        K = mac(K, V + b"\x00")
        V = mac(K, V)


def rfc6979_k(q, x, hash_bytes, hash_name, extra=b""):
    """The RFC 6979 nonce for private key x, subgroup order q and the message
    digest hash_bytes = H(m), with HMAC_DRBG instantiated over hash_name."""
    return next(rfc6979_k_candidates(q, x, hash_bytes, hash_name, extra))


# ---------------------------------------------------------------------------
# ECDSA
# ---------------------------------------------------------------------------

def ecdsa_sign(curve, d, hash_bytes, k):
    """FIPS 186-4 6.4 / SEC1 4.1.3 with an explicit nonce.  ValueError when
    the nonce is out of range or yields r == 0 or s == 0."""
    n = curve.n
    if not 1 <= k < n:
        raise ValueError("nonce out of range")
    if not 1 <= d < n:
        raise ValueError("private key out of range")
    e = bits2int(hash_bytes, n.bit_length())
    R = ec.w_mul(curve, k, curve.G)
    r = R[0] % n
    if r == 0:
        raise ValueError("r == 0")
    s = pow(k, -1, n) * (e + r * d) % n
    if s == 0:
        raise ValueError("s == 0")
    return r, s


def ecdsa_verify(curve, Q, hash_bytes, r, s):
    """SEC1 4.1.4.  Q must be a valid public key (on curve, not neutral)."""
    n = curve.n
    if Q is None or not ec.w_on_curve(curve, Q):
        return False
    if not (isinstance(r, int) and isinstance(s, int)):
        return False
    if not (1 <= r < n and 1 <= s < n):
        return False
    e = bits2int(hash_bytes, n.bit_length())
    w = pow(s, -1, n)
    u1 = e * w % n
    u2 = r * w % n
    R = ec.w_add(curve, ec.w_mul(curve, u1, curve.G), ec.w_mul(curve, u2, Q))
    if R is None:
        return False
    return R[0] % n == r


def ecdsa_sign_rfc6979(curve, d, hash_bytes, hash_name):
    for k in rfc6979_k_candidates(curve.n, d, hash_bytes, hash_name):
        try:
            return ecdsa_sign(curve, d, hash_bytes, k)
        except ValueError:
            continue


# ---------------------------------------------------------------------------
# DSA
# ---------------------------------------------------------------------------

def dsa_sign(p, q, g, x, hash_bytes, k):
    """FIPS 186-4 4.6 with an explicit nonce."""
    if not 1 <= k < q:
        raise ValueError("nonce out of range")
    if not 1 <= x < q:
        raise ValueError("private key out of range")
    z = bits2int(hash_bytes, q.bit_length())
    r = pow(g, k, p) % q
    if r == 0:
        raise ValueError("r == 0")
    s = pow(k, -1, q) * (z + x * r) % q
    if s == 0:
        raise ValueError("s == 0")
    return r, s


def dsa_verify(p, q, g, y, hash_bytes, r, s):
    """FIPS 186-4 4.7."""
    if not (isinstance(r, int) and isinstance(s, int)):
        return False
    if not (0 < r < q and 0 < s < q):
        return False
    z = bits2int(hash_bytes, q.bit_length())
    w = pow(s, -1, q)
    u1 = z * w % q
    u2 = r * w % q
    v = pow(g, u1, p) * pow(y, u2, p) % p % q
    return v == r


def dsa_sign_rfc6979(p, q, g, x, hash_bytes, hash_name):
    for k in rfc6979_k_candidates(q, x, hash_bytes, hash_name):
        try:
            return dsa_sign(p, q, g, x, hash_bytes, k)
        except ValueError:
            continue


def dsa_check_domain(p, q, g, y=None, x=None):
    """Invariants of FIPS 186-4 domain parameters / keys (A.1, A.2, 5.6.2.3.1
    of SP 800-56A for y).  Returns the list of violated ones."""
    from . import primes
    bad = []
    if not primes.is_prime_bpsw(p):
        bad.append("p not prime")
    if not primes.is_prime_bpsw(q):
        bad.append("q not prime")
    if q and (p - 1) % q != 0:
        bad.append("q does not divide p-1")
    if not 1 < g < p:
        bad.append("g out of range")
    elif pow(g, q, p) != 1:
        bad.append("g^q != 1")
    if y is not None:
        if not 1 < y < p - 1:
            bad.append("y out of range")
        elif pow(y, q, p) != 1:
            bad.append("y^q != 1")
    if x is not None:
        if not 0 < x < q:
            bad.append("x out of range")
        elif y is not None and pow(g, x, p) != y:
            bad.append("y != g^x")
    return bad


# ---------------------------------------------------------------------------
# signature encodings
# ---------------------------------------------------------------------------

def _order_len(order):
    return (order.bit_length() + 7) // 8


def encode_sig_binary(r, s, order):
    """r || s, each big-endian on the byte length of the group order
    (IEEE P1363 / FIPS 'binary' encoding of Crypto.Signature.DSS)."""
    n = _order_len(order)
    return r.to_bytes(n, "big") + s.to_bytes(n, "big")


def decode_sig_binary(sig, order):
    n = _order_len(order)
    sig = bytes(sig)
    if len(sig) != 2 * n:
        return None
    return int.from_bytes(sig[:n], "big"), int.from_bytes(sig[n:], "big")


def _der_len(n):
    if n < 0x80:
        return bytes([n])
    b = n.to_bytes((n.bit_length() + 7) // 8, "big")
    return bytes([0x80 | len(b)]) + b


def _der_uint(v):
    if v < 0:
        raise ValueError("negative")
    b = v.to_bytes(v.bit_length() // 8 + 1, "big")      # leading 00 iff msb set
    return b"\x02" + _der_len(len(b)) + b


def encode_sig_der(r, s):
    """Dss-Sig-Value / ECDSA-Sig-Value ::= SEQUENCE { r INTEGER, s INTEGER }"""
    body = _der_uint(r) + _der_uint(s)
    return b"\x30" + _der_len(len(body)) + body


def _der_read_tlv(buf, pos, tag):
    """Strict DER TLV at buf[pos:]; returns (value, next_pos) or None."""
    if pos + 2 > len(buf) or buf[pos] != tag:
        return None
    first = buf[pos + 1]
    pos += 2
    if first < 0x80:
        length = first
    else:
        nlen = first & 0x7F
        if nlen == 0 or nlen > 8:        # indefinite / absurd
            return None
        if pos + nlen > len(buf):
            return None
        lb = buf[pos:pos + nlen]
        pos += nlen
        if lb[0] == 0:                   # non-minimal length
            return None
        length = int.from_bytes(lb, "big")
        if length < 0x80:                # long form used for a short length
            return None
    if pos + length > len(buf):
        return None
    return buf[pos:pos + length], pos + length


def _der_read_uint(buf, pos):
    tv = _der_read_tlv(buf, pos, 0x02)
    if tv is None:
        return None
    val, pos = tv
    if len(val) == 0:
        return None
    if val[0] & 0x80:
        return None                      # negative
    if len(val) > 1 and val[0] == 0 and not (val[1] & 0x80):
        return None                      # non-minimal
    return int.from_bytes(val, "big"), pos


def decode_der_sig(sig):
    """(r, s) if `sig` is a strictly valid DER SEQUENCE of exactly two
    non-negative INTEGERs with nothing after it, else None."""
    sig = bytes(sig)
    tv = _der_read_tlv(sig, 0, 0x30)
    if tv is None:
        return None
    body, end = tv
    if end != len(sig):
        return None                      # trailing bytes
    a = _der_read_uint(body, 0)
    if a is None:
        return None
    r, pos = a
    b = _der_read_uint(body, pos)
    if b is None:
        return None
    s, pos = b
    if pos != len(body):
        return None
    return r, s


def encode_sig(r, s, order, encoding):
    if encoding == "binary":
        return encode_sig_binary(r, s, order)
    if encoding == "der":
        return encode_sig_der(r, s)
    raise ValueError("unknown encoding")


def decode_sig(sig, order, encoding):
    if encoding == "binary":
        return decode_sig_binary(sig, order)
    if encoding == "der":
        return decode_der_sig(sig)
    raise ValueError("unknown encoding")


# ---------------------------------------------------------------------------
# EdDSA (RFC 8032)
# ---------------------------------------------------------------------------

def _dom2(flag, ctx):
    return b"SigEd25519 no Ed25519 collisions" + bytes([flag, len(ctx)]) + ctx


def _dom4(flag, ctx):
    return b"SigEd448" + bytes([flag, len(ctx)]) + ctx


def _ed25519_setup(msg, ctx, ph, prehashed, force_dom):
    ctx = b"" if ctx is None else bytes(ctx)
    if len(ctx) > 255:
        raise ValueError("context too long")
    msg = bytes(msg)
    if ph:
        if prehashed:
            if len(msg) != 64:
                raise ValueError("prehashed Ed25519ph input must be 64 bytes")
            phm = msg
        else:
            phm = hashlib.sha512(msg).digest()
        dom = _dom2(1, ctx)
    else:
        if prehashed:
            raise ValueError("prehashed requires ph=True")
        phm = msg
        dom = _dom2(0, ctx) if (ctx or force_dom) else b""
    return dom, phm


def _ed448_setup(msg, ctx, ph, prehashed):
    ctx = b"" if ctx is None else bytes(ctx)
    if len(ctx) > 255:
        raise ValueError("context too long")
    msg = bytes(msg)
    if ph:
        if prehashed:
            if len(msg) != 64:
                raise ValueError("prehashed Ed448ph input must be 64 bytes")
            phm = msg
        else:
            phm = hashlib.shake_256(msg).digest(64)
        dom = _dom4(1, ctx)
    else:
        if prehashed:
            raise ValueError("prehashed requires ph=True")
        phm = msg
        dom = _dom4(0, ctx)
    return dom, phm


def _h25519(data):
    return int.from_bytes(hashlib.sha512(data).digest(), "little")


def _h448(data):
    return int.from_bytes(hashlib.shake_256(data).digest(114), "little")


def _eddsa_sign(curve, a, prefix, H, dom, phm):
    L = curve.n
    A = ec.ed_encode_point(curve, ec.ed_mul(curve, a, curve.G))
    r = H(dom + prefix + phm) % L
    R = ec.ed_encode_point(curve, ec.ed_mul(curve, r, curve.G))
    k = H(dom + R + A + phm) % L
    S = (r + k * a) % L
    return R + S.to_bytes(curve.enc_len, "little")


def _eddsa_verify(curve, H, dom, phm, pub, sig):
    n = curve.enc_len
    res = {"valid_cofactored": False, "valid_cofactorless": False, "reason": ""}
    pub = bytes(pub)
    sig = bytes(sig)
    if len(pub) != n:
        res["reason"] = "public key length"
        return res
    if len(sig) != 2 * n:
        res["reason"] = "signature length"
        return res
    A, why = ec.ed_decode_point_reason(curve, pub)
    if A is None:
        res["reason"] = "A does not decode: " + why
        return res
    R, why = ec.ed_decode_point_reason(curve, sig[:n])
    if R is None:
        res["reason"] = "R does not decode: " + why
        return res
    S = int.from_bytes(sig[n:], "little")
    if S >= curve.n:
        res["reason"] = "S >= L"
        return res
    k = H(dom + sig[:n] + pub + phm) % curve.n
    SB = ec.ed_mul(curve, S, curve.G)
    RkA = ec.ed_add(curve, R, ec.ed_mul(curve, k, A))
    res["valid_cofactorless"] = (SB == RkA)
    if res["valid_cofactorless"]:
        res["valid_cofactored"] = True
    else:
        res["valid_cofactored"] = (ec.ed_mul(curve, curve.h, SB) ==
                                   ec.ed_mul(curve, curve.h, RkA))
    if res["valid_cofactored"]:
        res["reason"] = "ok" if res["valid_cofactorless"] else \
            "ok (cofactored equation only)"
    else:
        res["reason"] = "group equation does not hold"
    return res


def ed25519_sign(seed, msg, ctx=None, ph=False, prehashed=False, force_dom=False):
    """RFC 8032 5.1.6.  ph=False & no/empty ctx: Ed25519; ph=False & ctx:
    Ed25519ctx; ph=True: Ed25519ph, where `msg` is the MESSAGE (hashed here
    with SHA-512) unless prehashed=True, in which case msg is the 64-byte
    PH(M)."""
    dom, phm = _ed25519_setup(msg, ctx, ph, prehashed, force_dom)
    a, prefix = ec.ed25519_expand_seed(seed)
    return _eddsa_sign(ec.CURVES["Ed25519"], a, prefix, _h25519, dom, phm)


def ed25519_verify(pub, msg, sig, ctx=None, ph=False, prehashed=False, force_dom=False):
    """RFC 8032 5.1.7 with strict decoding.  Returns a dict:
    valid_cofactored  : [8][S]B == [8]R + [8][k]A  (the REQUIRED check)
    valid_cofactorless: [S]B == R + [k]A           (sufficient, not required)
    reason            : text."""
    dom, phm = _ed25519_setup(msg, ctx, ph, prehashed, force_dom)
    return _eddsa_verify(ec.CURVES["Ed25519"], _h25519, dom, phm, pub, sig)


def ed448_sign(seed, msg, ctx=None, ph=False, prehashed=False):
    """RFC 8032 5.2.6.  ph=True: Ed448ph, PH(M) = SHAKE256(M, 64) computed
    here unless prehashed=True."""
    dom, phm = _ed448_setup(msg, ctx, ph, prehashed)
    a, prefix = ec.ed448_expand_seed(seed)
    return _eddsa_sign(ec.CURVES["Ed448"], a, prefix, _h448, dom, phm)


def ed448_verify(pub, msg, sig, ctx=None, ph=False, prehashed=False):
    dom, phm = _ed448_setup(msg, ctx, ph, prehashed)
    return _eddsa_verify(ec.CURVES["Ed448"], _h448, dom, phm, pub, sig)


# ---------------------------------------------------------------------------
# vectors
# ---------------------------------------------------------------------------

def _i(s):
    return int("".join(s.split()), 16)


def _b(s):
    return bytes.fromhex("".join(s.split()))


# RFC 6979 A.2.1
_DSA1024 = dict(
    p=_i("""86F5CA03DCFEB225063FF830A0C769B9DD9D6153AD91D7CE27F787C43278B447
            E6533B86B18BED6E8A48B784A14C252C5BE0DBF60B86D6385BD2F12FB763ED88
            73ABFD3F5BA2E0A8C0A59082EAC056935E529DAF7C610467899C77ADEDFC846C
            881870B7B19B2B58F9BE0521A17002E3BDD6B86685EE90B3D9A1B02B782B1779"""),
    q=_i("996F967F6C8E388D9E28D01E205FBA957A5698B1"),
    g=_i("""07B0F92546150B62514BB771E2A0C0CE387F03BDA6C56B505209FF25FD3C133D
            89BBCD97E904E09114D9A7DEFDEADFC9078EA544D2E401AEECC40BB9FBBF78FD
            87995A10A1C27CB7789B594BA7EFB5C4326A9FE59A070E136DB77175464ADCA4
            17BE5DCE2F40D10A46A3A3943F26AB7FD9C0398FF8C76EE0A56826A8A88F1DBD"""),
    x=_i("411602CB19A6CCC34494D79D98EF1E7ED5AF25F7"),
    y=_i("""5DF5E01DED31D0297E274E1691C192FE5868FEF9E19A84776454B100CF16F653
            92195A38B90523E2542EE61871C0440CB87C322FC4B4D2EC5E1E7EC766E1BE8D
            4CE935437DC11C3C8FD426338933EBFE739CB3465F4D3668C5E473508253B1E6
            82F65CBDC4FAE93C2EA212390E54905A86E2223170B44EAA7DA5DD9FFCFB7F3B"""),
)
# RFC 6979 A.2.2
_DSA2048 = dict(
    p=_i("""9DB6FB5951B66BB6FE1E140F1D2CE5502374161FD6538DF1648218642F0B5C48
            C8F7A41AADFA187324B87674FA1822B00F1ECF8136943D7C55757264E5A1A44F
            FE012E9936E00C1D3E9310B01C7D179805D3058B2A9F4BB6F9716BFE6117C6B5
            B3CC4D9BE341104AD4A80AD6C94E005F4B993E14F091EB51743BF33050C38DE2
            35567E1B34C3D6A5C0CEAA1A0F368213C3D19843D0B4B09DCB9FC72D39C8DE41
            F1BF14D4BB4563CA28371621CAD3324B6A2D392145BEBFAC748805236F5CA2FE
            92B871CD8F9C36D3292B5509CA8CAA77A2ADFC7BFD77DDA6F71125A7456FEA15
            3E433256A2261C6A06ED3693797E7995FAD5AABBCFBE3EDA2741E375404AE25B"""),
    q=_i("F2C3119374CE76C9356990B465374A17F23F9ED35089BD969F61C6DDE9998C1F"),
    g=_i("""5C7FF6B06F8F143FE8288433493E4769C4D988ACE5BE25A0E24809670716C613
            D7B0CEE6932F8FAA7C44D2CB24523DA53FBE4F6EC3595892D1AA58C4328A06C4
            6A15662E7EAA703A1DECF8BBB2D05DBE2EB956C142A338661D10461C0D135472
            085057F3494309FFA73C611F78B32ADBB5740C361C9F35BE90997DB2014E2EF5
            AA61782F52ABEB8BD6432C4DD097BC5423B285DAFB60DC364E8161F4A2A35ACA
            3A10B1C4D203CC76A470A33AFDCBDD92959859ABD8B56E1725252D78EAC66E71
            BA9AE3F1DD2487199874393CD4D832186800654760E1E34C09E4D155179F9EC0
            DC4473F996BDCE6EED1CABED8B6F116F7AD9CF505DF0F998E34AB27514B0FFE7"""),
    x=_i("69C7548C21D0DFEA6B9A51C9EAD4E27C33D3B3F180316E5BCAB92C933F0E4DBC"),
    y=_i("""667098C654426C78D7F8201EAC6C203EF030D43605032C2F1FA937E5237DBD94
            9F34A0A2564FE126DC8B715C5141802CE0979C8246463C40E6B6BDAA2513FA61
            1728716C2E4FD53BC95B89E69949D96512E873B9C8F8DFD499CC312882561ADE
            CB31F658E934C0C197F2C4D96B05CBAD67381E7B768891E4DA3843D24D94CDFB
            5126E9B8BF21E8358EE0E0A30EF13FD6A664C0DCE3731F7FB49A4845A4FD8254
            687972A2D382599C9BAC4E0ED7998193078913032558134976410B89D2C171D1
            23AC35FD977219597AA7D15C1A9A428E59194F75C721EBCBCFAE44696A499AFA
            74E04299F132026601638CB87AB79190D4A0986315DA8EEC6561C938996BEADF"""),
)

# (key, message, hash, k, r, s)
_RFC6979_DSA = [
    (_DSA1024, b"sample", "sha1",
     "7BDB6B0FF756E1BB5D53583EF979082F9AD5BD5B",
     "2E1A0C2562B2912CAAF89186FB0F42001585DA55",
     "29EFB6B0AFF2D7A68EB70CA313022253B9A88DF5"),
    (_DSA1024, b"sample", "sha256",
     "519BA0546D0C39202A7D34D7DFA5E760B318BCFB",
     "81F2F5850BE5BC123C43F71A3033E9384611C545",
     "4CDD914B65EB6C66A8AAAD27299BEE6B035F5E89"),
    (_DSA1024, b"sample", "sha512",
     "09ECE7CA27D0F5A4DD4E556C9DF1D21D28104F8B",
     "16C3491F9B8C3FBBDD5E7A7B667057F0D8EE8E1B",
     "02C36A127A7B89EDBB72E4FFBC71DABC7D4FC69C"),
    (_DSA1024, b"test", "sha224",
     "4598B8EFC1A53BC8AECD58D1ABBB0C0C71E67297",
     "6868E9964E36C1689F6037F91F28D5F2C30610F2",
     "49CEC3ACDC83018C5BD2674ECAAD35B8CD22940F"),
    (_DSA1024, b"test", "sha384",
     "220156B761F6CA5E6C9F1B9CF9C24BE25F98CD89",
     "854CF929B58D73C3CBFDC421E8D5430CD6DB5E66",
     "91D0E0F53E22F898D158380676A871A157CDA622"),
    (_DSA2048, b"sample", "sha1",
     "888FA6F7738A41BDC9846466ABDB8174C0338250AE50CE955CA16230F9CBD53E",
     "3A1B2DBD7489D6ED7E608FD036C83AF396E290DBD602408E8677DAABD6E7445A",
     "D26FCBA19FA3E3058FFC02CA1596CDBB6E0D20CB37B06054F7E36DED0CDBBCCF"),
    (_DSA2048, b"sample", "sha256",
     "8926A27C40484216F052F4427CFD5647338B7B3939BC6573AF4333569D597C52",
     "EACE8BDBBE353C432A795D9EC556C6D021F7A03F42C36E9BC87E4AC7932CC809",
     "7081E175455F9247B812B74583E9E94F9EA79BD640DC962533B0680793A38D53"),
    (_DSA2048, b"test", "sha384",
     "206E61F73DBE1B2DC8BE736B22B079E9DACD974DB00EEBBC5B64CAD39CF9F91C",
     "239E66DDBE8F8C230A3D071D601B6FFBDFB5901F94D444C6AF56F732BEB954BE",
     "6BD737513D5E72FE85D1C750E0F73921FE299B945AAD1C802F15C26A43D34961"),
    (_DSA2048, b"test", "sha512",
     "AFF1651E4CD6036D57AA8B2A05CCF1A9D5A40166340ECBBDC55BE10B568AA0AA",
     "89EC4BB1400ECCFF8E7D9AA515CD1DE7803F2DAFF09693EE7FD1353E90A68307",
     "C9F0BDABCC0D880BB137A994CC7F3980CE91CC10FAF529FC46565B15CEA854E1"),
]

# RFC 6979 A.2.5 (P-256) and A.2.7 (P-521): (curve, d, Ux, Uy, [(msg, hash, k, r, s)])
_RFC6979_ECDSA = [
    ("NIST P-256",
     "C9AFA9D845BA75166B5C215767B1D6934E50C3DB36E89B127B8A622B120F6721",
     "60FED4BA255A9D31C961EB74C6356D68C049B8923B61FA6CE669622E60F29FB6",
     "7903FE1008B8BC99A41AE9E95628BC64F2F1B20C2D7E9F5177A3C294D4462299",
     [(b"sample", "sha1",
       "882905F1227FD620FBF2ABF21244F0BA83D0DC3A9103DBBEE43A1FB858109DB4",
       "61340C88C3AAEBEB4F6D667F672CA9759A6CCAA9FA8811313039EE4A35471D32",
       "6D7F147DAC089441BB2E2FE8F7A3FA264B9C475098FDCF6E00D7C996E1B8B7EB"),
      (b"sample", "sha256",
       "A6E3C57DD01ABE90086538398355DD4C3B17AA873382B0F24D6129493D8AAD60",
       "EFD48B2AACB6A8FD1140DD9CD45E81D69D2C877B56AAF991C34D0EA84EAF3716",
       "F7CB1C942D657C41D436C7A1B6E29F65F3E900DBB9AFF4064DC4AB2F843ACDA8"),
      (b"sample", "sha512",
       "5FA81C63109BADB88C1F367B47DA606DA28CAD69AA22C4FE6AD7DF73A7173AA5",
       "8496A60B5E9B47C825488827E0495B0E3FA109EC4568FD3F8D1097678EB97F00",
       "2362AB1ADBE2B8ADF9CB9EDAB740EA6049C028114F2460F96554F61FAE3302FE"),
      (b"test", "sha256",
       "D16B6AE827F17175E040871A1C7EC3500192C4C92677336EC2537ACAEE0008E0",
       "F1ABB023518351CD71D881567B1EA663ED3EFCF6C5132B354F28D3B0B7D38367",
       "019F4113742A2B14BD25926B49C649155F267E60D3814B4C0CC84250E46F0083"),
      (b"test", "sha384",
       "16AEFFA357260B04B1DD199693960740066C1A8F3E8EDD79070AA914D361B3B8",
       "83910E8B48BB0C74244EBDF7F07A1C5413D61472BD941EF3920E623FBCCEBEB6",
       "8DDBEC54CF8CD5874883841D712142A56A8D0F218F5003CB0296B6B509619F2C"),
      ]),
    ("NIST P-521",
     "0FAD06DAA62BA3B25D2FB40133DA757205DE67F5BB0018FEE8C86E1B68C7E75C"
     "AA896EB32F1F47C70855836A6D16FCC1466F6D8FBEC67DB89EC0C08B0E996B83538",
     "1894550D0785932E00EAA23B694F213F8C3121F86DC97A04E5A7167DB4E5BCD3"
     "71123D46E45DB6B5D5370A7F20FB633155D38FFA16D2BD761DCAC474B9A2F5023A4",
     "0493101C962CD4D2FDDF782285E64584139C2F91B47F87FF82354D6630F746A2"
     "8A0DB25741B5B34A828008B22ACC23F924FAAFBD4D33F81EA66956DFEAA2BFDFCF5",
     [(b"sample", "sha1",
       "0089C071B419E1C2820962321787258469511958E80582E95D8378E0C2CCDB3CB42BEDE42F50E3FA3C71F5A76724281D31D9C89F0F91FC1BE4918DB1C03A5838D0F9",
       "00343B6EC45728975EA5CBA6659BBB6062A5FF89EEA58BE3C80B619F322C87910FE092F7D45BB0F8EEE01ED3F20BABEC079D202AE677B243AB40B5431D497C55D75D",
       "00E7B0E675A9B24413D448B8CC119D2BF7B2D2DF032741C096634D6D65D0DBE3D5694625FB9E8104D3B842C1B0E2D0B98BEA19341E8676AEF66AE4EBA3D5475D5D16"),
      (b"sample", "sha256",
       "00EDF38AFCAAECAB4383358B34D67C9F2216C8382AAEA44A3DAD5FDC9C32575761793FEF24EB0FC276DFC4F6E3EC476752F043CF01415387470BCBD8678ED2C7E1A0",
       "01511BB4D675114FE266FC4372B87682BAECC01D3CC62CF2303C92B3526012659D16876E25C7C1E57648F23B73564D67F61C6F14D527D54972810421E7D87589E1A7",
       "004A171143A83163D6DF460AAF61522695F207A58B95C0644D87E52AA1A347916E4F7A72930B1BC06DBE22CE3F58264AFD23704CBB63B29B931F7DE6C9D949A7ECFC"),
      (b"sample", "sha512",
       "01DAE2EA071F8110DC26882D4D5EAE0621A3256FC8847FB9022E2B7D28E6F10198B1574FDD03A9053C08A1854A168AA5A57470EC97DD5CE090124EF52A2F7ECBFFD3",
       "00C328FAFCBD79DD77850370C46325D987CB525569FB63C5D3BC53950E6D4C5F174E25A1EE9017B5D450606ADD152B534931D7D4E8455CC91F9B15BF05EC36E377FA",
       "00617CCE7CF5064806C467F678D3B4080D6F1CC50AF26CA209417308281B68AF282623EAA63E5B5C0723D8B8C37FF0777B1A20F8CCB1DCCC43997F1EE0E44DA4A67A"),
      (b"test", "sha512",
       "016200813020EC986863BEDFC1B121F605C1215645018AEA1A7B215A564DE9EB1B38A67AA1128B80CE391C4FB71187654AAA3431027BFC7F395766CA988C964DC56D",
       "013E99020ABF5CEE7525D16B69B229652AB6BDF2AFFCAEF38773B4B7D08725F10CDB93482FDCC54EDCEE91ECA4166B2A7C6265EF0CE2BD7051B7CEF945BABD47EE6D",
       "01FBD0013C674AA79CB39849527916CE301C66EA7CE8B80682786AD60F98F7E78A19CA69EFF5C57400E3B3A0AD66CE0978214D13BAF4E9AC60752F7B155E2DE4DCE3"),
      ]),
]

# RFC 8032 section 7: (curve, seed, pub, msg, ph, ctx, sig)
_RFC8032 = [
    ("Ed25519",
     "9d61b19deffd5a60ba844af492ec2cc44449c5697b326919703bac031cae7f60",
     "d75a980182b10ab7d54bfed3c964073a0ee172f3daa62325af021a68f707511a",
     "",
     False, "",
     "e5564300c360ac729086e2cc806e828a84877f1eb8e5d974d873e06522490155"
     "5fb8821590a33bacc61e39701cf9b46bd25bf5f0595bbe24655141438e7a100b"),
    ("Ed25519",
     "4ccd089b28ff96da9db6c346ec114e0f5b8a319f35aba624da8cf6ed4fb8a6fb",
     "3d4017c3e843895a92b70aa74d1b7ebc9c982ccf2ec4968cc0cd55f12af4660c",
     "72",
     False, "",
     "92a009a9f0d4cab8720e820b5f642540a2b27b5416503f8fb3762223ebdb69da"
     "085ac1e43e15996e458f3613d0f11d8c387b2eaeb4302aeeb00d291612bb0c00"),
    ("Ed25519",
     "c5aa8df43f9f837bedb7442f31dcb7b166d38535076f094b85ce3a2e0b4458f7",
     "fc51cd8e6218a1a38da47ed00230f0580816ed13ba3303ac5deb911548908025",
     "af82",
     False, "",
     "6291d657deec24024827e69c3abe01a30ce548a284743a445e3680d7db5ac3ac"
     "18ff9b538d16f290ae67f760984dc6594a7c15e9716ed28dc027beceea1ec40a"),
    ("Ed25519",
     "833fe62409237b9d62ec77587520911e9a759cec1d19755b7da901b96dca3d42",
     "ec172b93ad5e563bf4932c70e1245034c35467ef2efd4d64ebf819683467e2bf",
     "ddaf35a193617abacc417349ae20413112e6fa4e89a97ea20a9eeee64b55d39a"
     "2192992a274fc1a836ba3c23a3feebbd454d4423643ce80e2a9ac94fa54ca49f",
     False, "",
     "dc2a4459e7369633a52b1bf277839a00201009a3efbf3ecb69bea2186c26b589"
     "09351fc9ac90b3ecfdfbc7c66431e0303dca179c138ac17ad9bef1177331a704"),
    ("Ed25519",
     "0305334e381af78f141cb666f6199f57bc3495335a256a95bd2a55bf546663f6",
     "dfc9425e4f968f7f0c29f0259cf5f9aed6851c2bb4ad8bfb860cfee0ab248292",
     "f726936d19c800494e3fdaff20b276a8",
     False, "666f6f",
     "55a4cc2f70a54e04288c5f4cd1e45a7bb520b36292911876cada7323198dd87a"
     "8b36950b95130022907a7fb7c4e9b2d5f6cca685a587b4b21f4b888e4e7edb0d"),
    ("Ed25519",
     "0305334e381af78f141cb666f6199f57bc3495335a256a95bd2a55bf546663f6",
     "dfc9425e4f968f7f0c29f0259cf5f9aed6851c2bb4ad8bfb860cfee0ab248292",
     "f726936d19c800494e3fdaff20b276a8",
     False, "626172",
     "fc60d5872fc46b3aa69f8b5b4351d5808f92bcc044606db097abab6dbcb1aee3"
     "216c48e8b3b66431b5b186d1d28f8ee15a5ca2df6668346291c2043d4eb3e90d"),
    ("Ed25519",
     "0305334e381af78f141cb666f6199f57bc3495335a256a95bd2a55bf546663f6",
     "dfc9425e4f968f7f0c29f0259cf5f9aed6851c2bb4ad8bfb860cfee0ab248292",
     "508e9e6882b979fea900f62adceaca35",
     False, "666f6f",
     "8b70c1cc8310e1de20ac53ce28ae6e7207f33c3295e03bb5c0732a1d20dc6490"
     "8922a8b052cf99b7c4fe107a5abb5b2c4085ae75890d02df26269d8945f84b0b"),
    ("Ed25519",
     "ab9c2853ce297ddab85c993b3ae14bcad39b2c682beabc27d6d4eb20711d6560",
     "0f1d1274943b91415889152e893d80e93275a1fc0b65fd71b4b0dda10ad7d772",
     "f726936d19c800494e3fdaff20b276a8",
     False, "666f6f",
     "21655b5f1aa965996b3f97b3c849eafba922a0a62992f73b3d1b73106a84ad85"
     "e9b86a7b6005ea868337ff2d20a7f5fbd4cd10b0be49a68da2b2e0dc0ad8960f"),
    ("Ed25519",
     "833fe62409237b9d62ec77587520911e9a759cec1d19755b7da901b96dca3d42",
     "ec172b93ad5e563bf4932c70e1245034c35467ef2efd4d64ebf819683467e2bf",
     "616263",
     True, "",
     "98a70222f0b8121aa9d30f813d683f809e462b469c7ff87639499bb94e6dae41"
     "31f85042463c2a355a2003d062adf5aaa10b8c61e636062aaad11c2a26083406"),
    ("Ed448",
     "6c82a562cb808d10d632be89c8513ebf6c929f34ddfa8c9f63c9960ef6e348a3"
     "528c8a3fcc2f044e39a3fc5b94492f8f032e7549a20098f95b",
     "5fd7449b59b461fd2ce787ec616ad46a1da1342485a70e1f8a0ea75d80e96778"
     "edf124769b46c7061bd6783df1e50f6cd1fa1abeafe8256180",
     "",
     False, "",
     "533a37f6bbe457251f023c0d88f976ae2dfb504a843e34d2074fd823d41a591f"
     "2b233f034f628281f2fd7a22ddd47d7828c59bd0a21bfd3980ff0d2028d4b18a"
     "9df63e006c5d1c2d345b925d8dc00b4104852db99ac5c7cdda8530a113a0f4db"
     "b61149f05a7363268c71d95808ff2e652600"),
    ("Ed448",
     "c4eab05d357007c632f3dbb48489924d552b08fe0c353a0d4a1f00acda2c463a"
     "fbea67c5e8d2877c5e3bc397a659949ef8021e954e0a12274e",
     "43ba28f430cdff456ae531545f7ecd0ac834a55d9358c0372bfa0c6c6798c086"
     "6aea01eb00742802b8438ea4cb82169c235160627b4c3a9480",
     "03",
     False, "",
     "26b8f91727bd62897af15e41eb43c377efb9c610d48f2335cb0bd0087810f435"
     "2541b143c4b981b7e18f62de8ccdf633fc1bf037ab7cd779805e0dbcc0aae1cb"
     "cee1afb2e027df36bc04dcecbf154336c19f0af7e0a6472905e799f1953d2a0f"
     "f3348ab21aa4adafd1d234441cf807c03a00"),
    ("Ed448",
     "c4eab05d357007c632f3dbb48489924d552b08fe0c353a0d4a1f00acda2c463a"
     "fbea67c5e8d2877c5e3bc397a659949ef8021e954e0a12274e",
     "43ba28f430cdff456ae531545f7ecd0ac834a55d9358c0372bfa0c6c6798c086"
     "6aea01eb00742802b8438ea4cb82169c235160627b4c3a9480",
     "03",
     False, "666f6f",
     "d4f8f6131770dd46f40867d6fd5d5055de43541f8c5e35abbcd001b32a89f7d2"
     "151f7647f11d8ca2ae279fb842d607217fce6e042f6815ea000c85741de5c8da"
     "1144a6a1aba7f96de42505d7a7298524fda538fccbbb754f578c1cad10d54d0d"
     "5428407e85dcbc98a49155c13764e66c3c00"),
    ("Ed448",
     "cd23d24f714274e744343237b93290f511f6425f98e64459ff203e8985083ffd"
     "f60500553abc0e05cd02184bdb89c4ccd67e187951267eb328",
     "dcea9e78f35a1bf3499a831b10b86c90aac01cd84b67a0109b55a36e9328b1e3"
     "65fce161d71ce7131a543ea4cb5f7e9f1d8b00696447001400",
     "0c3e544074ec63b0265e0c",
     False, "",
     "1f0a8888ce25e8d458a21130879b840a9089d999aaba039eaf3e3afa090a09d3"
     "89dba82c4ff2ae8ac5cdfb7c55e94d5d961a29fe0109941e00b8dbdeea6d3b05"
     "1068df7254c0cdc129cbe62db2dc957dbb47b51fd3f213fb8698f064774250a5"
     "028961c9bf8ffd973fe5d5c206492b140e00"),
    ("Ed448",
     "833fe62409237b9d62ec77587520911e9a759cec1d19755b7da901b96dca3d42"
     "ef7822e0d5104127dc05d6dbefde69e3ab2cec7c867c6e2c49",
     "259b71c19f83ef77a7abd26524cbdb3161b590a48f7d17de3ee0ba9c52beb743"
     "c09428a131d6b1b57303d90d8132c276d5ed3d5d01c0f53880",
     "616263",
     True, "",
     "822f6901f7480f3d5f562c592994d9693602875614483256505600bbc281ae38"
     "1f54d6bce2ea911574932f52a4e6cadd78769375ec3ffd1b801a0d9b3f4030cd"
     "433964b6457ea39476511214f97469b57dd32dbc560a9a94d00bff07620464a3"
     "ad203df7dc7ce360c3cd3696d9d9fab90f00"),
    ("Ed448",
     "833fe62409237b9d62ec77587520911e9a759cec1d19755b7da901b96dca3d42"
     "ef7822e0d5104127dc05d6dbefde69e3ab2cec7c867c6e2c49",
     "259b71c19f83ef77a7abd26524cbdb3161b590a48f7d17de3ee0ba9c52beb743"
     "c09428a131d6b1b57303d90d8132c276d5ed3d5d01c0f53880",
     "616263",
     True, "666f6f",
     "c32299d46ec8ff02b54540982814dce9a05812f81962b649d528095916a2aa48"
     "1065b1580423ef927ecf0af5888f90da0f6a9a85ad5dc3f280d91224ba9911a3"
     "653d00e484e2ce232521481c8658df304bb7745a73514cdb9bf3e15784ab7128"
     "4f8d0704a608c54a6b62d97beb511d132100"),
]


def self_test():
    # ---- RFC 6979 A.1 detailed example (K-163 order, SHA-256) -----------
    q = 0x4000000000000000000020108A2E0CC0D99F8A5EF
    x = 0x09A4D6792295A7F730FC3F2B49CBC0F62E862272F
    h1 = hashlib.sha256(b"sample").digest()
    assert h1.hex().upper() == \
        "AF2BDBE1AA9B6EC1E2ADE1D694F41FC71A831D0268E9891562113D8A62ADD1BF"
    assert int2octets(x, 21).hex().upper() == "009A4D6792295A7F730FC3F2B49CBC0F62E862272F"
    assert bits2octets(h1, q).hex().upper() == "01795EDF0D54DB760F156D0DAC04C0322B3A204224"
    assert rfc6979_k(q, x, h1, "sha256") == 0x23AF4074C90A02B3FE61D286D5C87F425E6BDD81B
    cands = rfc6979_k_candidates(q, x, h1, "SHA-256")
    assert next(cands) == 0x23AF4074C90A02B3FE61D286D5C87F425E6BDD81B
    assert next(cands) != 0x23AF4074C90A02B3FE61D286D5C87F425E6BDD81B

    # ---- RFC 6979 A.2.1 / A.2.2 (DSA) -------------------------------------
    for key, msg, hname, k, r, s in _RFC6979_DSA:
        p, q, g, x, y = key["p"], key["q"], key["g"], key["x"], key["y"]
        assert pow(g, x, p) == y
        hb = hash_new(hname, msg).digest()
        assert rfc6979_k(q, x, hb, hname) == _i(k), (hname, msg)
        rs = dsa_sign(p, q, g, x, hb, _i(k))
        assert rs == (_i(r), _i(s)), (hname, msg)
        assert dsa_sign_rfc6979(p, q, g, x, hb, hname) == rs
        assert dsa_verify(p, q, g, y, hb, *rs)
        assert not dsa_verify(p, q, g, y, hb, rs[0], (rs[1] + 1) % q)
        assert not dsa_verify(p, q, g, y, hb, rs[0] + q, rs[1])
        assert not dsa_verify(p, q, g, y, hb, 0, rs[1])
        assert not dsa_verify(p, q, g, y, hb, rs[0], 0)
        assert not dsa_verify(p, q, g, y, hash_new(hname, msg + b"x").digest(), *rs)
    assert dsa_check_domain(_DSA1024["p"], _DSA1024["q"], _DSA1024["g"],
                            _DSA1024["y"], _DSA1024["x"]) == []
    assert dsa_check_domain(_DSA1024["p"], _DSA1024["q"] + 2, _DSA1024["g"]) != []

    # ---- RFC 6979 A.2.5 / A.2.7 (ECDSA) ------------------------------------
    for cname, d, ux, uy, sigs_ in _RFC6979_ECDSA:
        c = ec.CURVES[cname]
        d = _i(d)
        Q = ec.w_mul(c, d, c.G)
        assert Q == (_i(ux), _i(uy))
        for msg, hname, k, r, s in sigs_:
            hb = hash_new(hname, msg).digest()
            assert rfc6979_k(c.n, d, hb, hname) == _i(k), (cname, hname, msg)
            rs = ecdsa_sign(c, d, hb, _i(k))
            assert rs == (_i(r), _i(s)), (cname, hname, msg)
            assert ecdsa_verify(c, Q, hb, *rs)
            if (msg, hname) != (b"sample", "sha256"):
                continue
            assert ecdsa_verify(c, Q, hb, rs[0], c.n - rs[1])      # malleability
            assert not ecdsa_verify(c, Q, hb, rs[0], (rs[1] + 1) % c.n)
            assert not ecdsa_verify(c, Q, hb, rs[0] + c.n, rs[1])
            assert not ecdsa_verify(c, Q, hb, 0, rs[1])
            assert not ecdsa_verify(c, Q, hb, rs[0], 0)
            assert not ecdsa_verify(c, Q, hb, rs[0], c.n)
            assert not ecdsa_verify(c, None, hb, *rs)
            assert not ecdsa_verify(c, (Q[0], Q[1] ^ 1), hb, *rs)
            for enc in ("binary", "der"):
                e = encode_sig(rs[0], rs[1], c.n, enc)
                assert decode_sig(e, c.n, enc) == rs
        assert ecdsa_sign_rfc6979(c, d, hb, hname) == rs

    # ---- encodings ------------------------------------------------------------
    assert encode_sig_der(1, 2).hex() == "3006020101020102"
    assert encode_sig_der(0, 0x80).hex() == "30070201000202" + "0080"
    assert encode_sig_der(0x7F, 0xFF00).hex() == "300802017f020300ff00"
    big = (1 << 1023) | 5
    e = encode_sig_der(big, big)
    assert e[:3].hex() == "308201" and decode_der_sig(e) == (big, big)
    assert decode_der_sig(encode_sig_der(1 << 511, 1)) == (1 << 511, 1)
    e = encode_sig_der(2 ** 500 + 1, 3)
    assert e[1] == 0x81 or e[1] < 0x80
    good = bytes.fromhex("3006020101020102")
    assert decode_der_sig(good) == (1, 2)
    for badhex in (
        "300602010102010200",        # trailing byte
        "30070201010201020000"[:18],  # length larger than content
        "30810602010102010" + "2",   # non-minimal length (81 06)
        "3080020101020102" + "0000",  # indefinite length
        "3007020200010201" + "02",   # non-minimal integer 00 01
        "30060201ff020102",          # negative integer
        "3006020181020102",          # negative integer (0x81)
        "3106020101020102",          # SET instead of SEQUENCE
        "3006030101020102",          # BIT STRING instead of INTEGER
        "3003020101",                # one integer only
        "3009020101020102020103",    # three integers
        "30050200020102"[:14],       # empty integer
        "3006020101020102"[:-2],     # truncated
        "",
        "30",
        "3000",
        "30080201010201020500",      # extra NULL inside
    ):
        assert decode_der_sig(bytes.fromhex(badhex)) is None, badhex
    assert decode_sig_binary(b"\x00" * 63, (1 << 256) - 1) is None
    assert decode_sig_binary(b"\x00" * 31 + b"\x01" + b"\x00" * 31 + b"\x02",
                             (1 << 256) - 1) == (1, 2)
    assert len(encode_sig_binary(1, 2, ec.CURVES["NIST P-521"].n)) == 132

    # ---- RFC 8032 ----------------------------------------------------------------
    seen = set()
    for cname, seed, pub, msg, ph, ctx, sig in _RFC8032:
        seed, pub, msg, ctx, sig = _b(seed), _b(pub), _b(msg), _b(ctx), _b(sig)
        c = ec.CURVES[cname]
        assert ec.ed_public_from_seed(c, seed) == pub
        if cname == "Ed25519":
            sign, verify, phf = ed25519_sign, ed25519_verify, \
                lambda m: hashlib.sha512(m).digest()
        else:
            sign, verify, phf = ed448_sign, ed448_verify, \
                lambda m: hashlib.shake_256(m).digest(64)
        assert sign(seed, msg, ctx or None, ph) == sig, (cname, msg[:4], ctx)
        v = verify(pub, msg, sig, ctx, ph)
        assert v["valid_cofactored"] and v["valid_cofactorless"] and v["reason"] == "ok"
        if ph:
            assert sign(seed, phf(msg), ctx, True, prehashed=True) == sig
            assert verify(pub, phf(msg), sig, ctx, True, prehashed=True)["valid_cofactored"]
        # negative cases (once per curve / variant)
        if (cname, ph, bool(ctx)) in seen:
            continue
        seen.add((cname, ph, bool(ctx)))
        assert not verify(pub, msg + b"!", sig, ctx, ph)["valid_cofactored"]
        assert not verify(pub, msg, sig, ctx + b"x", ph)["valid_cofactored"]
        assert not verify(pub, msg, sig, ctx, not ph)["valid_cofactored"]
        n = c.enc_len
        S = int.from_bytes(sig[n:], "little")
        sig2 = sig[:n] + (S + c.n).to_bytes(n, "little")
        v = verify(pub, msg, sig2, ctx, ph)
        assert not v["valid_cofactored"] and v["reason"] == "S >= L"
        bad = bytearray(sig)
        bad[0] ^= 1
        assert not verify(pub, msg, bytes(bad), ctx, ph)["valid_cofactored"]
        assert verify(pub, msg, sig[:-1], ctx, ph)["reason"] == "signature length"
        assert verify(pub[:-1], msg, sig, ctx, ph)["reason"] == "public key length"

    # Ed25519 mixed-order signature: valid cofactored, invalid cofactorless.
    c = ec.CURVES["Ed25519"]
    seed = bytes(range(32))
    a, prefix = ec.ed25519_expand_seed(seed)
    A = ec.ed_mul(c, a, c.G)
    T8 = [t for t in ec.ed_small_order_points(c)
          if ec.ed_mul(c, 4, t) != (0, 1)][0]            # order 8
    msg = b"mixed order"
    r = 12345678901234567890
    R = ec.ed_add(c, ec.ed_mul(c, r, c.G), T8)              # R has a torsion part
    Renc = ec.ed_encode_point(c, R)
    Aenc = ec.ed_encode_point(c, A)
    k = _h25519(Renc + Aenc + msg) % c.n
    S = (r + k * a) % c.n
    v = ed25519_verify(Aenc, msg, Renc + S.to_bytes(32, "little"))
    assert v["valid_cofactored"] and not v["valid_cofactorless"]
    assert v["reason"] == "ok (cofactored equation only)"
    # S = 0, R = neutral, A = small order: accepted by the RFC equations
    # (A is a valid point encoding); the model reports it valid.
    Aenc = ec.ed_encode_point(c, T8)
    v = ed25519_verify(Aenc, b"x", ec.ed_encode_point(c, (0, 1)) + bytes(32))
    assert v["valid_cofactored"]
    # non-canonical R (y = 1 with the sign bit set) is rejected
    Rbad = (1 | 1 << 255).to_bytes(32, "little")
    v = ed25519_verify(Aenc, b"x", Rbad + bytes(32))
    assert not v["valid_cofactored"] and v["reason"].startswith("R does not decode")
    # S == L with R = neutral, A small order
    v = ed25519_verify(Aenc, b"x", ec.ed_encode_point(c, (0, 1)) + c.n.to_bytes(32, "little"))
    assert not v["valid_cofactored"] and v["reason"] == "S >= L"
    # Ed25519ctx with empty context differs from pure Ed25519
    s1 = ed25519_sign(seed, b"m")
    s2 = ed25519_sign(seed, b"m", b"", force_dom=True)
    assert s1 != s2 and ed25519_sign(seed, b"m", b"") == s1
    assert ed25519_verify(ec.ed_public_from_seed(c, seed), b"m", s2, force_dom=True)["valid_cofactored"]
    assert not ed25519_verify(ec.ed_public_from_seed(c, seed), b"m", s2)["valid_cofactored"]
    for f in (lambda: ed25519_sign(seed, b"m", b"x" * 256),
              lambda: ed448_sign(bytes(57), b"m", b"x" * 256),
              lambda: ed25519_sign(seed, b"m", prehashed=True),
              lambda: ed25519_sign(seed, b"m", ph=True, prehashed=True)):
        try:
            f()
        except ValueError:
            pass
        else:
            raise AssertionError("expected ValueError")
    assert len(ed448_sign(bytes(57), b"m", b"x" * 255)) == 114
    return True


if __name__ == "__main__":
    import time
    t = time.time()
    self_test()
    print("sigs self_test OK  %.2fs" % (time.time() - t))
    c = ec.CURVES["Ed25519"]
    seed = bytes(32)
    pub = ec.ed_public_from_seed(c, seed)
    sig = ed25519_sign(seed, b"hello")
    t = time.time()
    for _ in range(20):
        ed25519_verify(pub, b"hello", sig)
    print("Ed25519 verify: %.2f ms" % ((time.time() - t) / 20 * 1000))
