#!/venv/bin/python
"""Development-time cross-check of the reference model (ref.ciphers, ref.modes)
against the library under test (pycryptodome) on random inputs, plus a
model-only run over the Wycheproof vector files when they are available.

THIS IS THE ONLY FILE IN /verif/ref THAT IMPORTS `Crypto`.

Usage:  PYTHONPATH=/verif /venv/bin/python /verif/ref/devcheck_ciphers.py [--cases N] [--seed S]

Prints a summary table (cases / mismatches per cipher or mode) and exits with
status 1 when there is any mismatch.
"""

import json
import os
import random
import sys
import time
import traceback

sys.path.insert(0, os.path.dirname(os.path.dirname(os.path.abspath(__file__))))

from ref import ciphers as RC          # noqa: E402
from ref import modes as RM            # noqa: E402

from Crypto.Cipher import (AES, DES, DES3, Blowfish, CAST, ARC2, ARC4, Salsa20,   # noqa: E402
                           ChaCha20, ChaCha20_Poly1305, _EKSBlowfish)
from Crypto.Hash import CMAC, Poly1305                                            # noqa: E402
from Crypto.Util import Counter                                                   # noqa: E402
from Crypto.Protocol.KDF import _S2V                                              # noqa: E402

N = 300
SEED = 20260925
for i, a in enumerate(sys.argv):
    if a == "--cases":
        N = int(sys.argv[i + 1])
    if a == "--seed":
        SEED = int(sys.argv[i + 1])

rnd = random.Random(SEED)
RESULTS = []          # (name, cases, mismatches)
DETAILS = []          # textual reproducer for every mismatch (first few per check)


def rb(n):
    return rnd.randbytes(n)


def rlen(lo, hi):
    return rnd.randint(lo, hi)


class Check(object):
    def __init__(self, name):
        self.name = name
        self.cases = 0
        self.bad = 0

    def eq(self, got_model, got_lib, what, **ctx):
        self.cases += 1
        if got_model != got_lib:
            self.bad += 1
            if self.bad <= 3:
                DETAILS.append("%s: %s\n   model=%r\n   lib  =%r\n   ctx=%r" % (
                    self.name, what, got_model, got_lib,
                    {k: (v.hex() if isinstance(v, (bytes, bytearray)) else v) for k, v in ctx.items()}))

    def fail(self, what, **ctx):
        self.cases += 1
        self.bad += 1
        if self.bad <= 3:
            DETAILS.append("%s: %s ctx=%r" % (self.name, what, {
                k: (v.hex() if isinstance(v, (bytes, bytearray)) else v) for k, v in ctx.items()}))

    def ok(self):
        self.cases += 1

    def done(self):
        RESULTS.append((self.name, self.cases, self.bad))


def run(fn):
    t0 = time.time()
    try:
        fn()
    except Exception:
        RESULTS.append((fn.__name__ + " CRASHED", 0, 1))
        DETAILS.append(traceback.format_exc())
    return time.time() - t0


# ---------------------------------------------------------------------------
# random key material
# ---------------------------------------------------------------------------

def des3_key():
    while True:
        k = rb(rnd.choice((16, 24)))
        if not RC.DES3.degenerates_to_single_des(k):
            return k


BLOCK_CIPHERS = {
    # name: (lib module, key generator, model factory, extra lib kwargs generator)
    "AES":      (AES,      lambda: rb(rnd.choice((16, 24, 32))), lambda k, kw: RC.AES(k)),
    "DES":      (DES,      lambda: rb(8),                        lambda k, kw: RC.DES(k)),
    "DES3":     (DES3,     des3_key,                             lambda k, kw: RC.DES3(k)),
    "Blowfish": (Blowfish, lambda: rb(rlen(4, 56)),              lambda k, kw: RC.Blowfish(k)),
    "CAST128":  (CAST,     lambda: rb(rlen(5, 16)),              lambda k, kw: RC.CAST128(k)),
    "RC2":      (ARC2,     lambda: rb(rlen(5, 128)),
                 lambda k, kw: RC.RC2(k, kw.get("effective_keylen", 1024))),
}


def pick_cipher(names=None):
    name = rnd.choice(names or list(BLOCK_CIPHERS))
    mod, keygen, model = BLOCK_CIPHERS[name]
    key = keygen()
    kw = {}
    if name == "RC2" and rnd.random() < 0.7:
        kw["effective_keylen"] = rlen(40, 1024)
    return name, mod, key, kw, model(key, kw)


class LibECB(object):
    """Duck-type wrapper: the library's single-block ECB primitive."""

    def __init__(self, mod, key, **kw):
        self.block_size = mod.block_size
        self._e = mod.new(key, mod.MODE_ECB, **kw)
        self._d = mod.new(key, mod.MODE_ECB, **kw)

    def encrypt_block(self, b):
        return self._e.encrypt(b)

    def decrypt_block(self, b):
        return self._d.decrypt(b)


# ---------------------------------------------------------------------------
# primitive ciphers
# ---------------------------------------------------------------------------

def check_block_ciphers():
    for name in BLOCK_CIPHERS:
        ck = Check("cipher " + name)
        for _ in range(N):
            _, mod, key, kw, model = pick_cipher([name])
            blk = rb(mod.block_size)
            lib = mod.new(key, mod.MODE_ECB, **kw)
            ck.eq(model.encrypt_block(blk), lib.encrypt(blk), "encrypt", key=key, blk=blk, kw=kw)
            lib = mod.new(key, mod.MODE_ECB, **kw)
            ck.eq(model.decrypt_block(blk), lib.decrypt(blk), "decrypt", key=key, blk=blk, kw=kw)
        ck.done()
    # RC2 default effective key length must be 1024 in both
    ck = Check("cipher RC2 default effective_keylen")
    for _ in range(N // 3):
        key = rb(rlen(5, 128))
        blk = rb(8)
        ck.eq(RC.RC2(key).encrypt_block(blk), ARC2.new(key, ARC2.MODE_ECB).encrypt(blk), "enc", key=key)
    ck.done()
    # 3DES parity insensitivity / two-key expansion
    ck = Check("cipher DES3 parity+2key")
    for _ in range(N // 3):
        key = des3_key()
        blk = rb(8)
        adj = RC.DES3.adjust_parity(key)
        ck.eq(adj, DES3.adjust_key_parity(key), "adjust_key_parity", key=key)
        ck.eq(RC.DES3(key).encrypt_block(blk), DES3.new(adj, DES3.MODE_ECB).encrypt(blk), "parity", key=key)
    ck.done()


def check_eksblowfish():
    ck = Check("cipher EksBlowfish")
    for i in range(max(N // 5, 60)):
        # NOTE: len(key) == 0 is documented as legal by Crypto.Cipher._EKSBlowfish
        # ("from 0 to 72 bytes") but makes the C code spin forever (xorP() in
        # src/blowfish.c never advances with keylength == 0) -> not exercised here.
        key = rb(rlen(1, 72))
        salt = rb(16)
        cost = rnd.choice((0, 0, 1, 1, 2, 3, 4))
        invert = bool(rnd.getrandbits(1))
        blk = rb(8)
        lib = _EKSBlowfish.new(key, _EKSBlowfish.MODE_ECB, salt, cost, invert)
        m = RC.EksBlowfish(key, salt, cost, invert)
        ck.eq(m.encrypt_block(blk), lib.encrypt(blk), "encrypt", key=key, salt=salt, cost=cost, invert=invert)
    ck.done()


def check_stream_ciphers():
    ck = Check("cipher RC4")
    for _ in range(N):
        key = rb(rlen(1, 256))
        drop = rnd.choice((0, 0, 1, 255, 256, 768, 3072, rlen(0, 500)))
        d1, d2 = rb(rlen(0, 200)), rb(rlen(0, 200))
        lib = ARC4.new(key, drop=drop)
        m = RC.RC4(key, drop)
        ck.eq(m.crypt(d1) + m.crypt(d2), lib.encrypt(d1) + lib.encrypt(d2), "crypt", key=key, drop=drop)
    ck.done()

    ck = Check("cipher Salsa20")
    for _ in range(N):
        key = rb(rnd.choice((16, 32)))
        nonce = rb(8)
        pre = rlen(0, 200)
        data = rb(rlen(0, 200))
        lib = Salsa20.new(key, nonce)
        lib.encrypt(bytes(pre))
        ck.eq(RC.salsa20_xor(key, nonce, data, pre), lib.encrypt(data), "xor", key=key, nonce=nonce, pre=pre)
        lib = Salsa20.new(key, nonce)
        blkno = rlen(0, 3)
        ks = lib.encrypt(bytes(64 * 4))
        ck.eq(RC.salsa20_block(key, nonce, blkno), ks[64 * blkno:64 * blkno + 64], "block", key=key)
    ck.done()

    ck = Check("cipher ChaCha20/XChaCha20")
    for _ in range(N):
        key = rb(32)
        nonce = rb(rnd.choice((8, 12, 24)))
        top = (1 << 32) if len(nonce) != 8 else (1 << 64)
        # (the last block of the key stream is probed separately: known library deviation)
        blk = rnd.choice((0, 1, 2, rlen(0, 1000), rlen(0, top - 8), top - 6,
                          (1 << 32) - 2 if len(nonce) == 8 else 3))
        off = 64 * blk + rlen(0, 63)
        data = rb(rlen(0, 200))
        def lib_xor():
            try:
                lib = ChaCha20.new(key=key, nonce=nonce)
                lib.seek(off)
                return lib.encrypt(data)
            except ValueError as e:
                return "key stream exhausted"

        def model_xor():
            try:
                return RC.chacha20_xor(key, nonce, data, off)
            except OverflowError:
                return "key stream exhausted"

        ck.eq(model_xor(), lib_xor(), "xor", key=key, nonce=nonce, off=off, blk=off // 64, n=len(data))
        if len(nonce) != 24:
            ctr = off // 64
            lib = ChaCha20.new(key=key, nonce=nonce)
            lib.seek(64 * ctr)
            ck.eq(RC.chacha20_block(key, ctr, nonce), lib.encrypt(bytes(64)), "block", key=key, nonce=nonce, ctr=ctr)
        else:
            ck.eq(RC.hchacha20(key, nonce[:16]), ChaCha20._HChaCha20(key, nonce[:16]), "hchacha20", key=key)
    ck.done()


# ---------------------------------------------------------------------------
# classic modes
# ---------------------------------------------------------------------------

def check_classic_modes():
    ck_ecb, ck_cbc, ck_cfb, ck_ofb, ck_pgp = (Check("mode ECB"), Check("mode CBC"), Check("mode CFB"),
                                              Check("mode OFB"), Check("mode OPENPGP"))
    for i in range(N):
        name, mod, key, kw, model = pick_cipher()
        bs = mod.block_size
        ctx = dict(cipher=name, key=key, kw=kw)
        # sometimes drive the model modes with the library's ECB primitive (duck type)
        c = LibECB(mod, key, **kw) if i % 5 == 0 else model

        data = rb(bs * rlen(0, 200 // bs))
        ct = mod.new(key, mod.MODE_ECB, **kw).encrypt(data)
        ck_ecb.eq(RM.ecb_encrypt(c, data), ct, "enc", data=data, **ctx)
        ck_ecb.eq(RM.ecb_decrypt(c, data), mod.new(key, mod.MODE_ECB, **kw).decrypt(data), "dec", data=data, **ctx)

        iv = rb(bs)
        ct = mod.new(key, mod.MODE_CBC, iv=iv, **kw).encrypt(data)
        ck_cbc.eq(RM.cbc_encrypt(c, iv, data), ct, "enc", iv=iv, data=data, **ctx)
        ck_cbc.eq(RM.cbc_decrypt(c, iv, data), mod.new(key, mod.MODE_CBC, iv=iv, **kw).decrypt(data), "dec",
                  iv=iv, data=data, **ctx)

        seg = 8 * rlen(1, bs)
        if rnd.random() < 0.2:
            seg = rnd.choice((8, 8 * bs))
        sbytes = seg // 8
        # multiples of the segment size mostly; sometimes any length (the library accepts it)
        if rnd.random() < 0.7:
            data = rb(sbytes * rlen(0, 200 // sbytes))
        else:
            data = rb(rlen(0, 200))
        lib = mod.new(key, mod.MODE_CFB, iv=iv, segment_size=seg, **kw)
        cut = rlen(0, len(data))
        ct = lib.encrypt(data[:cut]) + lib.encrypt(data[cut:])
        ck_cfb.eq(RM.cfb_encrypt(c, iv, data, seg), ct, "enc", iv=iv, seg=seg, data=data, **ctx)
        ck_cfb.eq(RM.cfb_decrypt(c, iv, data, seg),
                  mod.new(key, mod.MODE_CFB, iv=iv, segment_size=seg, **kw).decrypt(data), "dec",
                  iv=iv, seg=seg, data=data, **ctx)
        # default segment size of the library is 8 bits
        ck_cfb.eq(RM.cfb_encrypt(c, iv, data[:40]), mod.new(key, mod.MODE_CFB, iv=iv, **kw).encrypt(data[:40]),
                  "default segment", iv=iv, **ctx)

        data = rb(rlen(0, 200))
        ct = mod.new(key, mod.MODE_OFB, iv=iv, **kw).encrypt(data)
        ck_ofb.eq(RM.ofb_crypt(c, iv, data), ct, "enc", iv=iv, data=data, **ctx)
        ck_ofb.eq(RM.ofb_crypt(c, iv, data), mod.new(key, mod.MODE_OFB, iv=iv, **kw).decrypt(data), "dec",
                  iv=iv, data=data, **ctx)

        lib = mod.new(key, mod.MODE_OPENPGP, iv=iv, **kw)
        cut = rlen(0, len(data))
        out = lib.encrypt(data[:cut]) + lib.encrypt(data[cut:])
        mout = RM.openpgp_encrypt(c, iv, data)
        ck_pgp.eq(mout, out, "enc", iv=iv, data=data, **ctx)
        ck_pgp.eq(lib.iv, iv, "iv attribute (encrypt side)")
        eiv, body = out[:bs + 2], out[bs + 2:]
        lib = mod.new(key, mod.MODE_OPENPGP, iv=eiv, **kw)
        ck_pgp.eq(RM.openpgp_decrypt(c, eiv, body), lib.decrypt(body), "dec", eiv=eiv, **ctx)
        ck_pgp.eq(RM.openpgp_recover_iv(c, eiv), (lib.iv, True), "iv attribute (decrypt side)", eiv=eiv, **ctx)
        # arbitrary (attacker-chosen) prefix: library must expose the decrypted IV and ignore the check bytes
        eiv = rb(bs + 2)
        lib = mod.new(key, mod.MODE_OPENPGP, iv=eiv, **kw)
        ck_pgp.eq(RM.openpgp_recover_iv(c, eiv)[0], lib.iv, "iv of random prefix", eiv=eiv, **ctx)
        ck_pgp.eq(RM.openpgp_decrypt(c, eiv, data), lib.decrypt(data), "dec random prefix", eiv=eiv, **ctx)
    for ck in (ck_ecb, ck_cbc, ck_cfb, ck_ofb, ck_pgp):
        ck.done()


def check_ctr():
    ck = Check("mode CTR (Counter.new)")
    ck2 = Check("mode CTR (nonce/initial_value)")
    ck3 = Check("mode CTR overflow rule")
    for i in range(N):
        name, mod, key, kw, model = pick_cipher()
        bs = mod.block_size
        ctx = dict(cipher=name, key=key, kw=kw)
        c = LibECB(mod, key, **kw) if i % 5 == 0 else model
        clen = rlen(1, bs)
        plen = rlen(0, bs - clen)
        prefix, suffix = rb(plen), rb(bs - clen - plen)
        le = bool(rnd.getrandbits(1))
        top = 1 << (8 * clen)
        data = rb(rlen(0, 200))
        mode = rnd.random()
        if mode < 0.45:
            init = top - rlen(1, min(top, 14))        # wraps inside the message
        elif mode < 0.6:
            init = rnd.choice((0, 1, top - 1, top // 2))
        else:
            init = rnd.randrange(top)
        # data must not need more than `top` blocks
        data = data[:bs * top]
        ctr = Counter.new(8 * clen, prefix=prefix, suffix=suffix, initial_value=init, little_endian=le)
        lib = mod.new(key, mod.MODE_CTR, counter=ctr, **kw)
        cut = rlen(0, len(data))
        out = lib.encrypt(data[:cut]) + lib.encrypt(data[cut:])
        ck.eq(RM.ctr_crypt(c, prefix, suffix, clen, init, le, data), out, "enc",
              prefix=prefix, suffix=suffix, clen=clen, init=init, le=le, data=data, **ctx)
        lib = mod.new(key, mod.MODE_CTR, counter=Counter.new(8 * clen, prefix=prefix, suffix=suffix,
                                                             initial_value=init, little_endian=le), **kw)
        ck.eq(RM.ctr_crypt(c, prefix, suffix, clen, init, le, data), lib.decrypt(data), "dec", **ctx)

        # nonce / initial_value interface: counter = rest of block, big endian
        nlen = rlen(0, bs - 1)
        nonce = rb(nlen)
        clen = bs - nlen
        top = 1 << (8 * clen)
        init = top - rlen(1, min(top, 14)) if rnd.random() < 0.5 else rnd.randrange(top)
        data = rb(rlen(0, 200))[:bs * top]
        if rnd.random() < 0.5:
            lib = mod.new(key, mod.MODE_CTR, nonce=nonce, initial_value=init, **kw)
        else:
            lib = mod.new(key, mod.MODE_CTR, nonce=nonce, initial_value=init.to_bytes(clen, "big"), **kw)
        ck2.eq(RM.ctr_crypt(c, nonce, b"", clen, init, False, data), lib.encrypt(data), "enc",
               nonce=nonce, init=init, data=data, **ctx)
    # overflow rule: 1-byte counter => at most 256 blocks
    for _ in range(max(30, N // 10)):
        name, mod, key, kw, model = pick_cipher()
        bs = mod.block_size
        prefix = rb(bs - 1)
        init = rlen(0, 255)
        n = bs * 256 + rnd.choice((-bs, -1, 0, 0, 1, bs))
        data = rb(n)
        lib = mod.new(key, mod.MODE_CTR, counter=Counter.new(8, prefix=prefix, initial_value=init), **kw)
        try:
            lo = lib.encrypt(data)
        except OverflowError:
            lo = "OverflowError"
        try:
            mo = RM.ctr_crypt(model, prefix, b"", 1, init, False, data)
        except OverflowError:
            mo = "OverflowError"
        ck3.eq(mo, lo, "overflow", cipher=name, key=key, init=init, n=n)
    ck.done()
    ck2.done()
    ck3.done()


# ---------------------------------------------------------------------------
# MACs
# ---------------------------------------------------------------------------

def check_cmac():
    ck = Check("mac CMAC")
    for i in range(N):
        name, mod, key, kw, model = pick_cipher()
        if kw:
            kw = {}
            model = RC.RC2(key)
        bs = mod.block_size
        c = LibECB(mod, key) if i % 5 == 0 else model
        msg = rb(rnd.choice((0, bs, 2 * bs, rlen(0, 200))))
        mac_len = rnd.choice((None, rlen(4, bs)))
        lib = CMAC.new(key, msg=msg, ciphermod=mod, mac_len=mac_len)
        ck.eq(RM.cmac(c, msg, mac_len), lib.digest(), "digest", cipher=name, key=key, msg=msg, mac_len=mac_len)
    ck.done()


def check_poly1305():
    ck = Check("mac Poly1305 (AES/ChaCha20)")
    for _ in range(N):
        key = rb(32)
        msg = rb(rnd.choice((0, 16, 32, rlen(0, 200))))
        if rnd.random() < 0.5:
            nonce = rb(16)
            lib = Poly1305.new(key=key, nonce=nonce, cipher=AES, data=msg)
            ck.eq(RM.poly1305_cipher_mac("AES", key, nonce, msg), lib.digest(), "AES", key=key, nonce=nonce, msg=msg)
        else:
            nonce = rb(rnd.choice((8, 12)))
            lib = Poly1305.new(key=key, nonce=nonce, cipher=ChaCha20, data=msg)
            ck.eq(RM.poly1305_cipher_mac("ChaCha20", key, nonce, msg), lib.digest(), "ChaCha20",
                  key=key, nonce=nonce, msg=msg)
    # edge values for r, s, and message blocks (carry / reduction corner cases)
    for _ in range(N):
        def edgy(n):
            return bytes(rnd.choice((0x00, 0xFF, 0xFF, 0xFE, 0xFB, 0x01, rnd.randrange(256))) for _ in range(n))
        aes_key, r, nonce = rb(16), edgy(16), rb(16)
        msg = edgy(rnd.choice((15, 16, 17, 32, 48, rlen(0, 100))))
        lib = Poly1305.new(key=aes_key + r, nonce=nonce, cipher=AES, data=msg)
        ck.eq(RM.poly1305_cipher_mac("AES", aes_key + r, nonce, msg), lib.digest(), "edge", r=r, msg=msg)
    ck.done()


# ---------------------------------------------------------------------------
# AEAD
# ---------------------------------------------------------------------------

def tamper(tag):
    t = bytearray(tag)
    t[rnd.randrange(len(t))] ^= 1 << rnd.randrange(8)
    return bytes(t)


def aead_roundtrip(ck, make_lib, seal, open_, aad, pt, ctx, aad_parts=None):
    """Generic AEAD comparison: seal, open, and verification of good/bad tags."""
    lib = make_lib()
    for part in (aad_parts if aad_parts is not None else ([aad] if aad else [])):
        lib.update(part)
    lct, ltag = lib.encrypt_and_digest(pt)
    mct, mtag = seal()
    ck.eq((mct, mtag), (lct, ltag), "seal", aad=aad, pt=pt, **ctx)
    # open the genuine message
    mpt, mexp = open_(lct, ltag)
    lib = make_lib()
    for part in (aad_parts if aad_parts is not None else ([aad] if aad else [])):
        lib.update(part)
    try:
        lpt = lib.decrypt_and_verify(lct, ltag)
    except ValueError:
        lpt = "REJECTED"
    ck.eq((mpt, mexp == ltag), (lpt, True), "open genuine", aad=aad, pt=pt, **ctx)
    # tampered tag or ciphertext: model says expected != received iff library rejects
    if lct and rnd.random() < 0.5:
        bad_ct, bad_tag = tamper(lct), ltag
    else:
        bad_ct, bad_tag = lct, tamper(ltag)
    mpt, mexp = open_(bad_ct, bad_tag)
    lib = make_lib()
    for part in (aad_parts if aad_parts is not None else ([aad] if aad else [])):
        lib.update(part)
    try:
        lib.decrypt_and_verify(bad_ct, bad_tag)
        accepted = True
    except ValueError:
        accepted = False
    ck.eq(mexp == bad_tag, accepted, "open tampered", aad=aad, ct=bad_ct, tag=bad_tag, **ctx)


def check_gcm():
    ck = Check("aead GCM")
    for i in range(N):
        key = rb(rnd.choice((16, 24, 32)))
        nonce = rb(rnd.choice((12, 12, 1, 8, 16, rlen(1, 70))))
        mac_len = rnd.choice((16, rlen(4, 16)))
        aad, pt = rb(rlen(0, 70)), rb(rlen(0, 200))
        c = LibECB(AES, key) if i % 5 == 0 else RC.AES(key)
        aead_roundtrip(ck, lambda: AES.new(key, AES.MODE_GCM, nonce=nonce, mac_len=mac_len),
                       lambda: RM.gcm_seal(c, nonce, aad, pt, mac_len),
                       lambda ct, tag: RM.gcm_open(c, nonce, aad, ct, mac_len),
                       aad, pt, dict(key=key, nonce=nonce, mac_len=mac_len))
    ck.done()


def check_ccm():
    ck = Check("aead CCM")
    for i in range(N):
        key = rb(rnd.choice((16, 24, 32)))
        nonce = rb(rlen(7, 13))
        mac_len = rnd.choice((4, 6, 8, 10, 12, 14, 16))
        aad, pt = rb(rlen(0, 70)), rb(rlen(0, 200))
        if i % 40 == 7:
            aad = rb(rnd.choice((0xFEFF, 0xFF00, 0xFF01, 70000)))      # 2-byte / 6-byte length encodings
        c = LibECB(AES, key) if i % 5 == 0 else RC.AES(key)
        aead_roundtrip(ck, lambda: AES.new(key, AES.MODE_CCM, nonce=nonce, mac_len=mac_len),
                       lambda: RM.ccm_seal(c, nonce, aad, pt, mac_len),
                       lambda ct, tag: RM.ccm_open(c, nonce, aad, ct, mac_len),
                       aad, pt, dict(key=key, nonce=nonce, mac_len=mac_len))
    ck.done()


def check_eax():
    ck = Check("aead EAX")
    for i in range(N):
        name, mod, key, kw, model = pick_cipher()
        bs = mod.block_size
        nonce = rb(rnd.choice((bs, rlen(1, 40))))
        mac_len = rnd.choice((bs, rlen(2, bs)))
        aad, pt = rb(rlen(0, 70)), rb(rlen(0, 200))
        c = LibECB(mod, key, **kw) if i % 5 == 0 else model
        aead_roundtrip(ck, lambda: mod.new(key, mod.MODE_EAX, nonce=nonce, mac_len=mac_len, **kw),
                       lambda: RM.eax_seal(c, nonce, aad, pt, mac_len),
                       lambda ct, tag: RM.eax_open(c, nonce, aad, ct, mac_len),
                       aad, pt, dict(cipher=name, key=key, kw=kw, nonce=nonce, mac_len=mac_len))
    ck.done()


def check_siv():
    ck = Check("aead SIV")
    ck2 = Check("kdf S2V")
    for i in range(N):
        key = rb(rnd.choice((32, 48, 64)))
        ncomp = rnd.choice((0, 1, 1, 2, 3, rlen(0, 8)))
        comps = [rb(rnd.choice((1, 15, 16, 17, rlen(1, 70)))) for _ in range(ncomp)]
        nonce = rb(rnd.choice((16, rlen(1, 40)))) if rnd.random() < 0.6 else None
        pt = rb(rnd.choice((0, 1, 15, 16, 17, rlen(0, 200))))
        s2v_comps = comps + ([nonce] if nonce is not None else [])
        ctx = dict(key=key, comps=[x.hex() for x in comps], nonce=nonce)

        def make_lib():
            if nonce is None:
                return AES.new(key, AES.MODE_SIV)
            return AES.new(key, AES.MODE_SIV, nonce=nonce)

        aead_roundtrip(ck, make_lib,
                       lambda: RM.siv_seal(RC.AES, key, s2v_comps, pt),
                       lambda ct, tag: RM.siv_open(RC.AES, key, s2v_comps, ct, tag),
                       b"", pt, ctx, aad_parts=comps)
        # S2V on its own (>= 1 component in the library)
        k1 = rb(rnd.choice((16, 24, 32)))
        s = _S2V.new(k1, AES)
        vec = s2v_comps + [pt]
        for x in vec:
            s.update(x)
        ck2.eq(RM.s2v(RC.AES(k1), vec), s.derive(), "s2v", key=k1, vec=[x.hex() for x in vec])
    ck.done()
    ck2.done()


def check_ocb():
    ck = Check("aead OCB")
    for i in range(N):
        key = rb(rnd.choice((16, 24, 32)))
        nonce = rb(rnd.choice((12, 15, 1, rlen(1, 15))))
        mac_len = rnd.choice((16, rlen(8, 16)))
        aad, pt = rb(rlen(0, 70)), rb(rnd.choice((0, 16, 32, rlen(0, 200))))
        c = LibECB(AES, key) if i % 5 == 0 else RC.AES(key)
        aead_roundtrip(ck, lambda: AES.new(key, AES.MODE_OCB, nonce=nonce, mac_len=mac_len),
                       lambda: RM.ocb_seal(c, nonce, aad, pt, mac_len),
                       lambda ct, tag: RM.ocb_open(c, nonce, aad, ct, mac_len),
                       aad, pt, dict(key=key, nonce=nonce, mac_len=mac_len))
    ck.done()


def check_chacha20_poly1305():
    ck = Check("aead ChaCha20-Poly1305")
    for _ in range(N):
        key = rb(32)
        nonce = rb(rnd.choice((8, 12, 24)))
        aad, pt = rb(rlen(0, 70)), rb(rlen(0, 200))
        aead_roundtrip(ck, lambda: ChaCha20_Poly1305.new(key=key, nonce=nonce),
                       lambda: RM.chacha20_poly1305_seal(key, nonce, aad, pt),
                       lambda ct, tag: RM.chacha20_poly1305_open(key, nonce, aad, ct),
                       aad, pt, dict(key=key, nonce=nonce))
    ck.done()


def check_kw():
    ck = Check("mode KW")
    ck2 = Check("mode KWP")
    for i in range(N):
        key = rb(rnd.choice((16, 24, 32)))
        c = LibECB(AES, key) if i % 5 == 0 else RC.AES(key)
        pt = rb(8 * rnd.choice((rlen(2, 25), rlen(2, 25), rlen(40, 64))))     # n > 42 makes t exceed 255
        w = AES.new(key, AES.MODE_KW).seal(pt)
        ck.eq(RM.kw_wrap(c, pt), w, "wrap", key=key, pt=pt)
        ck.eq(RM.kw_unwrap(c, w), AES.new(key, AES.MODE_KW).unseal(w), "unwrap", key=key)
        # malformed: arbitrary A
        a = bytearray(RM.KW_ICV1)
        if rnd.random() < 0.8:
            a[rnd.randrange(8)] ^= 1 << rnd.randrange(8)
        bad = RM.kw_wrap_raw(c, bytes(a), pt)
        try:
            lo = AES.new(key, AES.MODE_KW).unseal(bad)
        except ValueError:
            lo = "ValueError"
        try:
            mo = RM.kw_unwrap(c, bad)
        except ValueError:
            mo = "ValueError"
        ck.eq(mo, lo, "unwrap malformed", key=key, a=bytes(a), pt=pt)

        pt = rb(rnd.choice((rlen(1, 8), rlen(1, 200))))
        w = AES.new(key, AES.MODE_KWP).seal(pt)
        ck2.eq(RM.kwp_wrap(c, pt), w, "wrap", key=key, pt=pt)
        ck2.eq(RM.kwp_unwrap(c, w), AES.new(key, AES.MODE_KWP).unseal(w), "unwrap", key=key)
        # malformed AIV / MLI / padding
        n = (len(pt) + 7) // 8
        padded = bytearray(pt + bytes(8 * n - len(pt)))
        kind = rnd.randrange(5)
        mli = len(pt)
        icv = bytearray(RM.KWP_ICV2)
        if kind == 0:
            icv[rnd.randrange(4)] ^= 1 << rnd.randrange(8)
        elif kind == 1:
            mli = rnd.choice((0, 8 * (n - 1), 8 * n + 1, 8 * n + 8, mli + 1, max(mli - 1, 0), (1 << 32) - 1))
        elif kind == 2 and len(pt) % 8:
            padded[rnd.randrange(len(pt), 8 * n)] ^= 1 << rnd.randrange(8)
        elif kind == 3:
            mli = rlen(0, 8 * n + 9)
        bad = RM.kw_wrap_raw(c, bytes(icv) + mli.to_bytes(4, "big"), bytes(padded))
        try:
            lo = AES.new(key, AES.MODE_KWP).unseal(bad)
        except ValueError:
            lo = "ValueError"
        try:
            mo = RM.kwp_unwrap(c, bad)
        except ValueError:
            mo = "ValueError"
        ck2.eq(mo, lo, "unwrap malformed", key=key, icv=bytes(icv), mli=mli, padded=bytes(padded))
    ck.done()
    ck2.done()


# ---------------------------------------------------------------------------
# model-only: Wycheproof vectors (independent of the library implementation)
# ---------------------------------------------------------------------------

def wycheproof_dir():
    cands = ["/repo/test_vectors/pycryptodome_test_vectors/Cipher/wycheproof"]
    try:
        import pycryptodome_test_vectors
        cands.append(os.path.join(os.path.dirname(pycryptodome_test_vectors.__file__), "Cipher", "wycheproof"))
    except ImportError:
        pass
    for d in cands:
        if os.path.isdir(d):
            return d
    return None


def check_wycheproof():
    d = wycheproof_dir()
    if d is None:
        RESULTS.append(("wycheproof (model only): vectors not found", 0, 0))
        return

    def load(name):
        with open(os.path.join(d, name)) as f:
            return json.load(f)

    def aead(fname, label, seal, open_, supported):
        ck = Check("wycheproof " + label + " (model only)")
        for g in load(fname)["testGroups"]:
            tlen = g["tagSize"] // 8
            for t in g["tests"]:
                key, iv, aad, msg, ct, tag = [bytes.fromhex(t[x]) for x in ("key", "iv", "aad", "msg", "ct", "tag")]
                if not supported(key, iv, tlen):
                    if t["result"] == "valid":
                        ck.fail("valid vector outside the model's parameter range", tcId=t["tcId"])
                    else:
                        ck.ok()
                    continue
                pt, exp = open_(key, iv, aad, ct, tlen)
                accept = exp == tag
                if t["result"] == "valid":
                    ck.eq((accept, pt), (True, msg), "valid vector rejected/wrong", tcId=t["tcId"])
                    ck.eq(seal(key, iv, aad, msg, tlen), (ct, tag), "seal", tcId=t["tcId"])
                elif t["result"] == "invalid":
                    ck.eq(accept, False, "invalid vector accepted", tcId=t["tcId"], comment=t["comment"])
                else:
                    ck.ok()
        ck.done()

    aead("aes_gcm_test.json", "AES-GCM",
         lambda k, n, a, m, t: RM.gcm_seal(RC.AES(k), n, a, m, t),
         lambda k, n, a, c, t: RM.gcm_open(RC.AES(k), n, a, c, t),
         lambda k, n, t: len(n) >= 1)
    aead("aes_ccm_test.json", "AES-CCM",
         lambda k, n, a, m, t: RM.ccm_seal(RC.AES(k), n, a, m, t),
         lambda k, n, a, c, t: RM.ccm_open(RC.AES(k), n, a, c, t),
         lambda k, n, t: 7 <= len(n) <= 13 and t in (4, 6, 8, 10, 12, 14, 16))
    aead("aes_eax_test.json", "AES-EAX",
         lambda k, n, a, m, t: RM.eax_seal(RC.AES(k), n, a, m, t),
         lambda k, n, a, c, t: RM.eax_open(RC.AES(k), n, a, c, t),
         lambda k, n, t: len(n) >= 1)
    aead("chacha20_poly1305_test.json", "ChaCha20-Poly1305",
         lambda k, n, a, m, t: RM.chacha20_poly1305_seal(k, n, a, m),
         lambda k, n, a, c, t: RM.chacha20_poly1305_open(k, n, a, c),
         lambda k, n, t: len(n) == 12)
    aead("xchacha20_poly1305_test.json", "XChaCha20-Poly1305",
         lambda k, n, a, m, t: RM.chacha20_poly1305_seal(k, n, a, m),
         lambda k, n, a, c, t: RM.chacha20_poly1305_open(k, n, a, c),
         lambda k, n, t: len(n) == 24)
    # SIV needs the received tag for decryption -> handled separately.
    # AEAD-AES-SIV-CMAC: S2V(aad, nonce, pt); AES-SIV-CMAC: S2V(aad, pt), ct = tag || body
    ck = Check("wycheproof AEAD-AES-SIV-CMAC (model only)")
    for g in load("aead_aes_siv_cmac_test.json")["testGroups"]:
        for t in g["tests"]:
            key, iv, aad, msg, ct, tag = [bytes.fromhex(t[x]) for x in ("key", "iv", "aad", "msg", "ct", "tag")]
            comps = [aad, iv]
            pt, exp = RM.siv_open(RC.AES, key, comps, ct, tag)
            if t["result"] == "valid":
                ck.eq((exp == tag, pt), (True, msg), "valid", tcId=t["tcId"])
                ck.eq(RM.siv_seal(RC.AES, key, comps, msg), (ct, tag), "seal", tcId=t["tcId"])
            elif t["result"] == "invalid":
                ck.eq(exp == tag, False, "invalid accepted", tcId=t["tcId"])
            else:
                ck.ok()
    ck.done()
    ck = Check("wycheproof AES-SIV-CMAC (model only)")
    for g in load("aes_siv_cmac_test.json")["testGroups"]:
        for t in g["tests"]:
            key, aad, msg, ct = [bytes.fromhex(t[x]) for x in ("key", "aad", "msg", "ct")]
            tag, body = ct[:16], ct[16:]
            pt, exp = RM.siv_open(RC.AES, key, [aad], body, tag)
            if t["result"] == "valid":
                ck.eq((exp == tag, pt), (True, msg), "valid", tcId=t["tcId"])
                ck.eq(RM.siv_seal(RC.AES, key, [aad], msg), (body, tag), "seal", tcId=t["tcId"])
            elif t["result"] == "invalid":
                ck.eq(exp == tag, False, "invalid accepted", tcId=t["tcId"])
            else:
                ck.ok()
    ck.done()

    for fname, label, wrap, unwrap in (("kw_test.json", "KW", RM.kw_wrap, RM.kw_unwrap),
                                       ("kwp_test.json", "KWP", RM.kwp_wrap, RM.kwp_unwrap)):
        ck = Check("wycheproof " + label + " (model only)")
        for g in load(fname)["testGroups"]:
            for t in g["tests"]:
                key, msg, ct = [bytes.fromhex(t[x]) for x in ("key", "msg", "ct")]
                c = RC.AES(key)
                try:
                    got = unwrap(c, ct)
                except ValueError:
                    got = None
                if t["result"] == "valid":
                    ck.eq(got, msg, "valid unwrap", tcId=t["tcId"])
                    ck.eq(wrap(c, msg), ct, "wrap", tcId=t["tcId"])
                elif t["result"] == "invalid":
                    ck.eq(got, None, "invalid accepted", tcId=t["tcId"], comment=t["comment"])
                else:       # "acceptable": either outcome, but if accepted the key must match
                    if got is not None and got != msg:
                        ck.fail("acceptable vector unwrapped to a different key", tcId=t["tcId"])
                    else:
                        ck.ok()
        ck.done()


# ---------------------------------------------------------------------------
# probes for spec-vs-library deviations that were analysed by hand; they are
# reported in their own table and do not count as model mismatches
# ---------------------------------------------------------------------------

DEVIATIONS = []       # (title, observed?, text)


def probe_subprocess(code, timeout=8):
    import subprocess
    try:
        p = subprocess.run([sys.executable, "-c", code], capture_output=True, text=True, timeout=timeout)
        return (p.stdout + p.stderr).strip()
    except subprocess.TimeoutExpired:
        return "TIMEOUT after %d s (process killed)" % timeout


def check_deviations():
    # D1: the last block of the ChaCha20 key stream cannot be produced
    obs = []
    for nlen, top in ((12, 1 << 32), (8, 1 << 64), (24, 1 << 32)):
        key, nonce = rb(32), rb(nlen)
        want = RC.chacha20_xor(key, nonce, bytes(64), 64 * (top - 1))
        try:
            c = ChaCha20.new(key=key, nonce=nonce)
            c.seek(64 * (top - 1))
            got = c.encrypt(bytes(64))
        except ValueError as e:
            got = "ValueError: %s" % e
        obs.append(got != want)
    DEVIATIONS.append((
        "ChaCha20/XChaCha20: final key-stream block unusable", all(obs),
        "RFC 8439 / Bernstein: block counters 0..2^32-1 (2^64-1 for the 64-bit nonce) are all valid, "
        "the key stream is 2^38 (2^70) bytes.  Library: seek(64*(2**32-1)) or encrypting into that "
        "block raises 'ValueError: Error 10' (chacha20_core() reports ERR_MAX_DATA when the counter "
        "increment AFTER producing the last block wraps), so the usable stream is one block short.  "
        "Repro: ChaCha20.new(key=bytes(32), nonce=bytes(12)).seek(64*(2**32-1))"))

    # D2: documented zero-length EKSBlowfish key hangs
    out = probe_subprocess(
        "from Crypto.Cipher import _EKSBlowfish as E\n"
        "print(E.new(b'', E.MODE_ECB, bytes(16), 0, True).encrypt(bytes(8)).hex())")
    want = RC.EksBlowfish(b"", bytes(16), 0, True).encrypt_block(bytes(8)).hex()
    DEVIATIONS.append((
        "_EKSBlowfish: zero-length key (documented as legal) never returns", out != want,
        "Crypto.Cipher._EKSBlowfish documents key length 0..72 (key_size = range(0, 73)); with len(key)==0 "
        "xorP() in src/blowfish.c loops forever (tc = MIN(0, ...) never advances P_idx).  "
        "Repro: _EKSBlowfish.new(b'', _EKSBlowfish.MODE_ECB, bytes(16), 0, True) -> observed: %s ; "
        "model (XOR of an empty key = no-op) gives %s.  bcrypt() itself always appends a NUL, so only the "
        "private module is affected." % (out, want)))

    # D3: Counter.new docstring vs implementation
    ctr = Counter.new(8, prefix=bytes(15), initial_value=255)
    try:
        AES.new(bytes(16), AES.MODE_CTR, counter=ctr).encrypt(bytes(32))
        wrapped_silently = True
    except OverflowError:
        wrapped_silently = False
    DEVIATIONS.append((
        "Counter.new docstring: 'OverflowError is always raised when the counter wraps around to zero'",
        wrapped_silently,
        "Implementation (src/raw_ctr.c) lets the counter field pass through zero and raises OverflowError "
        "only once more than 2**(8*counter_len) blocks were consumed (a counter block would repeat).  "
        "The model follows the implementation (documentation-only discrepancy).  "
        "Repro: AES.new(bytes(16), AES.MODE_CTR, counter=Counter.new(8, prefix=bytes(15), "
        "initial_value=255)).encrypt(bytes(32)) succeeds."))

    # D4: S2V with zero components
    s = _S2V.new(bytes(16), AES)
    got = s.derive()
    want = RM.s2v(RC.AES(bytes(16)), [])
    DEVIATIONS.append((
        "_S2V with zero components", got != want,
        "RFC 5297 sec 2.4: S2V with n = 0 returns CMAC(K, <one>) = %s; Crypto.Protocol.KDF._S2V.derive() "
        "without any update() returns %s (equal to CMAC(K, 0^128): %s).  Private class; "
        "MODE_SIV always supplies the plaintext as final component, so it is not reachable through AES.new()."
        % (want.hex(), got.hex(), got == RM.cmac(RC.AES(bytes(16)), bytes(16)))))


# ---------------------------------------------------------------------------

def main():
    t0 = time.time()
    RC.self_test()
    RM.self_test()
    print("self tests OK (%.2f s); %d random cases per check, seed %d" % (time.time() - t0, N, SEED))
    for fn in (check_block_ciphers, check_eksblowfish, check_stream_ciphers, check_classic_modes,
               check_ctr, check_cmac, check_poly1305, check_gcm, check_ccm, check_eax, check_siv,
               check_ocb, check_chacha20_poly1305, check_kw, check_wycheproof, check_deviations):
        dt = run(fn)
        print("  %-28s %.1f s" % (fn.__name__, dt))
    print()
    print("%-52s %8s %10s" % ("check", "cases", "mismatches"))
    print("-" * 72)
    total = bad = 0
    for name, cases, mism in RESULTS:
        print("%-52s %8d %10d" % (name, cases, mism))
        total += cases
        bad += mism
    print("-" * 72)
    print("%-52s %8d %10d" % ("TOTAL", total, bad))
    print("\nANALYSED LIBRARY DEVIATIONS / API NOTES (not counted above)")
    for title, observed, text in DEVIATIONS:
        print(" [%s] %s\n      %s" % ("observed" if observed else "NOT observed (fixed?)", title, text))
    if DETAILS:
        print("\nMISMATCH DETAILS")
        for d in DETAILS:
            print(d)
    print("\nelapsed %.1f s" % (time.time() - t0))
    return 1 if bad else 0


if __name__ == "__main__":
    sys.exit(main())
