"""Independent reference model for key derivation functions.

Pure Python, stdlib only.  Written from the specifications:

  PBKDF1 / PBKDF2   RFC 8018 (PKCS #5 v2.1), sections 5.1 and 5.2
  HKDF              RFC 5869
  scrypt            RFC 7914
  KDF in Counter Mode   NIST SP 800-108r1, section 4.1
  bcrypt            Provos & Mazieres, "A Future-Adaptable Password Scheme"
                    (USENIX 1999) and the OpenBSD "$2a$" string format
                    (Blowfish tables regenerated from the hex digits of pi)

The multi-key / argument conventions follow what PyCryptodome *documents*
for Crypto.Protocol.KDF.  This module never imports ``Crypto``.
"""

import struct

from . import hashes as _hashes
from .hashes import HASHES, hmac_generic, hmac_pads, pi_scaled

__all__ = [
    "pbkdf1", "pbkdf2", "pbkdf2_prf", "hkdf", "hkdf_extract", "hkdf_expand",
    "scrypt", "salsa20_8_core", "sp800_108_counter",
    "bcrypt", "bcrypt_matches", "bcrypt_b64encode", "bcrypt_b64decode",
    "blowfish_initial_state", "self_test",
]

_M32 = 0xFFFFFFFF


def _xor(a, b):
    n = len(a)
    return (int.from_bytes(a, "big") ^ int.from_bytes(b, "big")).to_bytes(n, "big")


# ---------------------------------------------------------------------------
# PBKDF1 (RFC 8018, 5.1)
# ---------------------------------------------------------------------------

def pbkdf1(password, salt8, dklen, count, hash_name="sha1"):
    f, _, hlen = HASHES[hash_name]
    if hash_name not in ("md2", "md5", "sha1"):
        raise ValueError("PBKDF1 is defined for MD2, MD5 and SHA-1 only")
    if len(salt8) != 8:
        raise ValueError("PBKDF1 salt must be 8 bytes")
    if dklen > hlen:
        raise ValueError("derived key too long")
    if count < 1:
        raise ValueError("iteration count must be positive")
    t = f(bytes(password) + bytes(salt8))
    for _ in range(count - 1):
        t = f(t)
    return t[:dklen]


# ---------------------------------------------------------------------------
# PBKDF2 (RFC 8018, 5.2)
# ---------------------------------------------------------------------------

def pbkdf2_prf(prf, prf_len, password, salt, dklen, count):
    """PBKDF2 with an arbitrary PRF ``prf(password, data) -> bytes``."""
    if count < 1:
        raise ValueError("iteration count must be positive")
    if dklen > (2 ** 32 - 1) * prf_len:
        raise ValueError("derived key too long")
    password = bytes(password)
    salt = bytes(salt)
    blocks = []
    have = 0
    i = 1
    while have < dklen:
        u = prf(password, salt + struct.pack(">I", i))
        if len(u) != prf_len:
            raise ValueError("PRF output length mismatch")
        acc = int.from_bytes(u, "big")
        for _ in range(count - 1):
            u = prf(password, u)
            acc ^= int.from_bytes(u, "big")
        blocks.append(acc.to_bytes(prf_len, "big"))
        have += prf_len
        i += 1
    return b"".join(blocks)[:dklen]


def pbkdf2(password, salt, dklen, count, hash_name="sha1"):
    """PBKDF2 with HMAC-<hash_name> (any entry of hashes.HASHES)."""
    f, bs, hlen = HASHES[hash_name]
    ipad, opad = hmac_pads(f, bs, bytes(password))

    def prf(_p, data):
        return f(opad + f(ipad + data))

    return pbkdf2_prf(prf, hlen, password, salt, dklen, count)


# ---------------------------------------------------------------------------
# HKDF (RFC 5869)
# ---------------------------------------------------------------------------

def hkdf_extract(salt, ikm, hash_name):
    f, bs, hlen = HASHES[hash_name]
    if not salt:
        salt = b"\x00" * hlen
    return hmac_generic(f, bs, salt, ikm)


def hkdf_expand(prk, info, length, hash_name):
    f, bs, hlen = HASHES[hash_name]
    if length > 255 * hlen:
        raise ValueError("HKDF output too long")
    info = bytes(info)
    okm = []
    t = b""
    have = 0
    n = 1
    while have < length:
        t = hmac_generic(f, bs, prk, t + info + bytes([n]))
        okm.append(t)
        have += hlen
        n += 1
    return b"".join(okm)[:length]


def _split(stream, key_len, num_keys):
    if num_keys == 1:
        return stream[:key_len]
    return [stream[i * key_len:(i + 1) * key_len] for i in range(num_keys)]


def hkdf(master, key_len, salt, hash_name, num_keys=1, context=b""):
    """HKDF with PyCryptodome's documented multi-key convention.

    Returns ``bytes`` when num_keys == 1, else a list of num_keys byte
    strings that are consecutive slices of one OKM of key_len*num_keys bytes.
    ``salt`` None/empty => HashLen zero bytes.  ``context`` None => empty.
    """
    _, _, hlen = HASHES[hash_name]
    total = key_len * num_keys
    if total > 255 * hlen:
        raise ValueError("Too much secret data to derive")
    if context is None:
        context = b""
    prk = hkdf_extract(salt, master, hash_name)
    okm = hkdf_expand(prk, context, total, hash_name)
    return _split(okm, key_len, num_keys)


# ---------------------------------------------------------------------------
# scrypt (RFC 7914)
# ---------------------------------------------------------------------------

def _build_salsa20_8():
    """Unrolled Salsa20/8 core on 16 little-endian words (Salsa20 spec)."""
    cols = ((0, 4, 8, 12), (5, 9, 13, 1), (10, 14, 2, 6), (15, 3, 7, 11))
    rows = ((0, 1, 2, 3), (5, 6, 7, 4), (10, 11, 8, 9), (15, 12, 13, 14))
    L = ["def _salsa20_8(B):",
         "    (" + ", ".join("x%d" % i for i in range(16)) + ") = B",
         "    for _ in (0, 1, 2, 3):"]
    ind = "        "

    def qr(a, b, c, d):
        for (dst, s1, s2, rot) in ((b, a, d, 7), (c, b, a, 9),
                                   (d, c, b, 13), (a, d, c, 18)):
            L.append(ind + "t = (x%d + x%d) & 0xFFFFFFFF" % (s1, s2))
            L.append(ind + "x%d ^= (t << %d & 0xFFFFFFFF) | t >> %d"
                     % (dst, rot, 32 - rot))
    for q in cols:
        qr(*q)
    for q in rows:
        qr(*q)
    L.append("    return [" + ", ".join(
        "(x%d + B[%d]) & 0xFFFFFFFF" % (i, i) for i in range(16)) + "]")
    ns = {}
    exec("\n".join(L), ns)
    return ns["_salsa20_8"]


_salsa20_8 = _build_salsa20_8()


def salsa20_8_core(block64):
    """Salsa20/8 core on a 64-byte string (RFC 7914 section 3)."""
    return struct.pack("<16I", *_salsa20_8(struct.unpack("<16I", bytes(block64))))


def _blockmix(B, r):
    """scryptBlockMix on a list of 32*r words."""
    X = B[(2 * r - 1) * 16:]
    even = []
    odd = []
    for i in range(2 * r):
        o = i * 16
        X = _salsa20_8([X[k] ^ B[o + k] for k in range(16)])
        if i & 1:
            odd.extend(X)
        else:
            even.extend(X)
    return even + odd


def _romix(block, r, N):
    nw = 32 * r
    X = list(struct.unpack("<%dI" % nw, block))
    V = []
    for _ in range(N):
        V.append(X)
        X = _blockmix(X, r)
    lo = (2 * r - 1) * 16
    for _ in range(N):
        # Integerify: last 64-byte block as little-endian integer, mod N
        j = (X[lo] | (X[lo + 1] << 32)) % N
        Vj = V[j]
        X = _blockmix([X[k] ^ Vj[k] for k in range(nw)], r)
    return struct.pack("<%dI" % nw, *X)


def scrypt(password, salt, key_len, N, r, p, num_keys=1, strict=True):
    """scrypt; returns bytes (num_keys == 1) or a list of num_keys keys that
    are consecutive slices of one output of key_len*num_keys bytes.

    strict=True enforces RFC 7914 section 2: N a power of two, N > 1 and
    N < 2^(128*r/8); p <= ((2^32-1)*32)/(128*r); dkLen <= (2^32-1)*32.
    strict=False only requires N to be a power of two in 1..2^32-1 (what
    PyCryptodome documents) and evaluates the same formulas.
    """
    if N < 1 or N & (N - 1):
        raise ValueError("N must be a power of 2")
    if N >= 2 ** 32:
        raise ValueError("N is too big")
    if r < 1 or p < 1:
        raise ValueError("r and p must be positive")
    if strict:
        if N < 2:
            raise ValueError("N must be larger than 1")
        if N >= 1 << (16 * r):
            raise ValueError("N must be less than 2^(128*r/8)")
    if p > ((2 ** 32 - 1) * 32) // (128 * r):
        raise ValueError("p or r are too big")
    total = key_len * num_keys
    if total > (2 ** 32 - 1) * 32:
        raise ValueError("output too long")
    password = bytes(password)
    salt = bytes(salt)
    blen = 128 * r
    B = pbkdf2(password, salt, p * blen, 1, "sha256")
    out = [_romix(B[i * blen:(i + 1) * blen], r, N) for i in range(p)]
    dk = pbkdf2(password, b"".join(out), total, 1, "sha256")
    return _split(dk, key_len, num_keys)


# ---------------------------------------------------------------------------
# SP 800-108r1 KDF in Counter Mode (section 4.1), r = 32, counter before
# the fixed input, FixedInput = Label || 0x00 || Context || [L]_32
# ---------------------------------------------------------------------------

def sp800_108_counter(prf, prf_len, master, key_len, label=b"", context=b"",
                      num_keys=1):
    """K(i) = PRF(K_IN, [i]_32 || Label || 0x00 || Context || [L]_32).

    L is the total output length in *bits* (key_len * num_keys * 8).
    Returns bytes (num_keys == 1) or a list of keys.
    """
    total = key_len * num_keys
    L = total * 8
    if L >= 1 << 32:
        raise ValueError("L does not fit in 32 bits")
    n = -(-total // prf_len)
    if n > 2 ** 32 - 1:
        raise ValueError("too many PRF invocations")
    fixed = bytes(label) + b"\x00" + bytes(context) + struct.pack(">I", L)
    out = []
    for i in range(1, n + 1):
        k = prf(master, struct.pack(">I", i) + fixed)
        if len(k) != prf_len:
            raise ValueError("PRF output length mismatch")
        out.append(k)
    return _split(b"".join(out)[:total], key_len, num_keys)


# ---------------------------------------------------------------------------
# Blowfish / EksBlowfish / bcrypt
# ---------------------------------------------------------------------------

def _blowfish_tables():
    """P-array and S-boxes = the first 1042 32-bit words of frac(pi)."""
    nwords = 18 + 4 * 256
    bits = 32 * nwords
    frac = pi_scaled(1 << bits) - (3 << bits)
    raw = frac.to_bytes(bits // 8, "big")
    words = struct.unpack(">%dI" % nwords, raw)
    P = list(words[:18])
    S = [list(words[18 + 256 * i:18 + 256 * (i + 1)]) for i in range(4)]
    return P, S


_BF_P0, _BF_S0 = _blowfish_tables()


def blowfish_initial_state():
    """Fresh copy of the Blowfish initial state (P, [S0, S1, S2, S3])."""
    return list(_BF_P0), [list(s) for s in _BF_S0]


def _build_bf_encipher():
    """Unrolled 16-round Blowfish encryption of one block (L, R).

    Round i: L ^= P[i]; R ^= F(L); swap.  The last swap is undone and the
    output whitening uses P[16] (right half) and P[17] (left half).
    F(x) = ((S0[x>>24] + S1[x>>16 & 255]) ^ S2[x>>8 & 255]) + S3[x & 255].
    """
    src = ["def _bf_encipher(P, S0, S1, S2, S3, L, R):"]
    a, b = "L", "R"
    for i in range(16):
        src.append("    %s ^= P[%d]" % (a, i))
        src.append("    %s ^= (((S0[%s >> 24] + S1[%s >> 16 & 255]) ^ S2[%s >> 8 & 255])"
                   " + S3[%s & 255]) & 0xFFFFFFFF" % (b, a, a, a, a))
        a, b = b, a
    # after 16 swaps (a, b) == (L, R) again; undo the last swap:
    src.append("    return %s ^ P[17], %s ^ P[16]" % (b, a))
    ns = {}
    exec("\n".join(src), ns)
    return ns["_bf_encipher"]


_bf_encipher = _build_bf_encipher()


def _cyclic_words(data, count):
    """``count`` big-endian 32-bit words read cyclically from ``data``."""
    n = len(data)
    rep = data * (-(-(4 * count) // n) + 1)
    return struct.unpack(">%dI" % count, rep[:4 * count])


def _expand_key(P, S, salt_words, key):
    """ExpandKey(state, salt, key) of the bcrypt paper (in place).

    ``salt_words`` is a 4-tuple of 32-bit words (all zero for the plain
    Blowfish key schedule)."""
    kw = _cyclic_words(key, 18)
    for i in range(18):
        P[i] ^= kw[i]
    S0, S1, S2, S3 = S
    L = R = 0
    j = 0
    for i in range(0, 18, 2):
        L ^= salt_words[j]
        R ^= salt_words[j + 1]
        j ^= 2
        L, R = _bf_encipher(P, S0, S1, S2, S3, L, R)
        P[i] = L
        P[i + 1] = R
    for box in S:
        for i in range(0, 256, 2):
            L ^= salt_words[j]
            R ^= salt_words[j + 1]
            j ^= 2
            L, R = _bf_encipher(P, S0, S1, S2, S3, L, R)
            box[i] = L
            box[i + 1] = R


def _eks_blowfish_setup(cost, salt16, key):
    P, S = blowfish_initial_state()
    sw = struct.unpack(">4I", salt16)
    zero = (0, 0, 0, 0)
    _expand_key(P, S, sw, key)
    for _ in range(1 << cost):
        _expand_key(P, S, zero, key)
        _expand_key(P, S, zero, salt16)
    return P, S


_BCRYPT_ALPHABET = "./ABCDEFGHIJKLMNOPQRSTUVWXYZabcdefghijklmnopqrstuvwxyz0123456789"
_BCRYPT_INDEX = {c: i for i, c in enumerate(_BCRYPT_ALPHABET)}


def bcrypt_b64encode(data):
    """Unpadded base64 (MSB first) with the bcrypt alphabet."""
    data = bytes(data)
    nbits = len(data) * 8
    nchars = -(-nbits // 6)
    v = int.from_bytes(data, "big") << (nchars * 6 - nbits)
    return "".join(_BCRYPT_ALPHABET[(v >> (6 * (nchars - 1 - i))) & 63]
                   for i in range(nchars)).encode("ascii")


def bcrypt_b64decode(text):
    """Inverse of bcrypt_b64encode; surplus low bits are dropped."""
    if isinstance(text, (bytes, bytearray)):
        text = bytes(text).decode("ascii")
    if len(text) % 4 == 1:
        raise ValueError("Incorrect length")
    v = 0
    for c in text:
        if c not in _BCRYPT_INDEX:
            raise ValueError("Invalid bcrypt base64 character")
        v = (v << 6) | _BCRYPT_INDEX[c]
    nbytes = len(text) * 6 // 8
    v >>= len(text) * 6 - nbytes * 8
    return v.to_bytes(nbytes, "big")


def bcrypt_raw(key, cost, salt16):
    """The 24-byte bcrypt output for an already prepared key (1..72 bytes)."""
    if not 1 <= len(key) <= 72:
        raise ValueError("bcrypt key must be 1..72 bytes")
    if not 4 <= cost <= 31:
        raise ValueError("bcrypt cost factor must be in the range 4..31")
    if len(salt16) != 16:
        raise ValueError("bcrypt salt must be 16 bytes long")
    P, S = _eks_blowfish_setup(cost, bytes(salt16), bytes(key))
    S0, S1, S2, S3 = S
    w = list(struct.unpack(">6I", b"OrpheanBeholderScryDoubt"))
    for _ in range(64):
        for i in (0, 2, 4):
            w[i], w[i + 1] = _bf_encipher(P, S0, S1, S2, S3, w[i], w[i + 1])
    return struct.pack(">6I", *w)


def bcrypt(password, cost, salt16):
    """OpenBSD bcrypt, "$2a$" format: 60-byte ``b"$2a$CC$<22 salt><31 hash>"``.

    The password must be at most 72 bytes and must not contain NUL; the C
    string terminator is part of the key (when it still fits in 72 bytes).
    """
    password = bytes(password)
    if b"\x00" in password:
        raise ValueError("The password contains the zero byte")
    if len(password) > 72:
        raise ValueError("The password is too long. It must be 72 bytes at most.")
    key = (password + b"\x00")[:72]
    raw = bcrypt_raw(key, cost, salt16)
    return (b"$2a$" + ("%02d" % cost).encode("ascii") + b"$"
            + bcrypt_b64encode(salt16) + bcrypt_b64encode(raw[:23]))


def bcrypt_matches(password, hash60):
    """True iff ``hash60`` is a well-formed "$2a$" hash of ``password``.

    Mirrors the accept/reject decision bcrypt_check is documented to make:
    anything malformed (length, prefix, cost outside 4..31, characters
    outside the alphabet, non-canonical encoding, invalid password) is
    a mismatch (False)."""
    hash60 = bytes(hash60)
    if len(hash60) != 60 or hash60[:4] != b"$2a$" or hash60[6:7] != b"$":
        return False
    cc = hash60[4:6]
    if not cc.isdigit():
        return False
    cost = int(cc)
    if not 4 <= cost <= 31:
        return False
    try:
        tail = hash60[7:].decode("ascii")
    except UnicodeDecodeError:
        return False
    if any(c not in _BCRYPT_INDEX for c in tail):
        return False
    salt = bcrypt_b64decode(tail[:22])
    try:
        return bcrypt(password, cost, salt) == hash60
    except ValueError:
        return False


# ---------------------------------------------------------------------------
# Self test
# ---------------------------------------------------------------------------

def _h(s):
    return bytes.fromhex(s.replace(" ", "").replace("\n", ""))


def self_test():
    import hashlib
    import hmac as _hmac
    import warnings

    def eq(got, want, what):
        if isinstance(want, str):
            want = _h(want)
        assert got == want, "%s: got %r want %r" % (what, got, want)

    # --- PBKDF1 (di-mgt example) -------------------------------------------
    eq(pbkdf1(b"password", _h("78578E5A5D63CB06"), 16, 1000, "sha1"),
       "DC19847E05C64D2FAF10EBFB4A3D2A20", "PBKDF1-SHA1")

    # --- PBKDF2 (RFC 6070, RFC 7914 section 11) -----------------------------
    eq(pbkdf2(b"password", b"salt", 20, 1), "0c60c80f961f0e71f3a9b524af6012062fe037a6", "PBKDF2 #1")
    eq(pbkdf2(b"password", b"salt", 20, 2), "ea6c014dc72d6f8ccd1ed92ace1d41f0d8de8957", "PBKDF2 #2")
    eq(pbkdf2(b"password", _h("78578E5A5D63CB06"), 24, 2048),
       "BFDE6BE94DF7E11DD409BCE20A0255EC327CB936FFE93643", "PBKDF2 di-mgt")
    eq(pbkdf2(b"pass\x00word", b"sa\x00lt", 16, 4096), "56fa6aa75548099dcc37d7f03425e0c3", "PBKDF2 #6")
    eq(pbkdf2(b"passwd", b"salt", 64, 1, "sha256"),
       "55ac046e56e3089fec1691c22544b605f94185216dde0465e68b9d57c20dacbc"
       "49ca9cccf179b645991664b39d77ef317c71b845b1e30bd509112041d3a19783", "PBKDF2-SHA256")
    for name in ("md5", "sha1", "sha224", "sha256", "sha384", "sha512",
                 "sha512_224", "sha512_256", "sha3_256", "sha3_512", "ripemd160"):
        try:
            want = hashlib.pbkdf2_hmac(name, b"pw" * 70, b"NaCl", 3, 150)
        except ValueError:
            continue
        eq(pbkdf2(b"pw" * 70, b"NaCl", 150, 3, name), want, "PBKDF2-%s vs hashlib" % name)
    eq(pbkdf2_prf(lambda p, s: _hmac.new(p, s, "sha1").digest(), 20, b"password", b"salt", 20, 2),
       "ea6c014dc72d6f8ccd1ed92ace1d41f0d8de8957", "PBKDF2 generic PRF")

    # --- HKDF (RFC 5869 A.1, A.2, A.3, A.4) ---------------------------------
    ikm = b"\x0b" * 22
    eq(hkdf_extract(_h("000102030405060708090a0b0c"), ikm, "sha256"),
       "077709362c2e32df0ddc3f0dc47bba6390b6c73bb50f9c3122ec844ad7c2b3e5", "HKDF A.1 PRK")
    eq(hkdf(ikm, 42, _h("000102030405060708090a0b0c"), "sha256", 1, _h("f0f1f2f3f4f5f6f7f8f9")),
       "3cb25f25faacd57a90434f64d0362f2a2d2d0a90cf1a5a4c5db02d56ecc4c5bf34007208d5b887185865", "HKDF A.1")
    eq(hkdf(bytes(range(0x00, 0x50)), 82, bytes(range(0x60, 0xb0)), "sha256", 1, bytes(range(0xb0, 0x100))),
       "b11e398dc80327a1c8e7f78c596a49344f012eda2d4efad8a050cc4c19afa97c"
       "59045a99cac7827271cb41c65e590e09da3275600c2f09b8367793a9aca3db71"
       "cc30c58179ec3e87c14c01d5c1f3434f1d87", "HKDF A.2")
    a3 = "8da4e775a563c18f715f802a063c5a31b8a11f5c5ee1879ec3454e5f3c738d2d9d201395faa4b61a96c8"
    eq(hkdf(ikm, 42, b"", "sha256", 1, b""), a3, "HKDF A.3")
    eq(hkdf(ikm, 42, None, "sha256", 1, None), a3, "HKDF A.3 (None)")
    eq(hkdf(b"\x0b" * 11, 42, _h("000102030405060708090a0b0c"), "sha1", 1, _h("f0f1f2f3f4f5f6f7f8f9")),
       "085a01ea1b10f36933068b56efa5ad81a4f14b822f5b091568a9cdd4f155fda2c22e422478d305f3f896", "HKDF A.4")
    ks = hkdf(ikm, 14, b"", "sha256", 3, b"")
    assert ks == [_h(a3)[0:14], _h(a3)[14:28], _h(a3)[28:42]], "HKDF multi-key"
    try:
        hkdf(ikm, 32 * 255 + 1, b"", "sha256")
        raise AssertionError("HKDF limit")
    except ValueError:
        pass
    assert len(hkdf(ikm, 32 * 255, b"", "sha256")) == 8160

    # --- scrypt (RFC 7914) --------------------------------------------------
    eq(salsa20_8_core(_h(
        "7e879a214f3ec9867ca940e641718f26baee555b8c61c1b50df846116dcd3b1d"
        "ee24f319df9b3d8514121e4b5ac5aa3276021d2909c74829edebc68db8b8c25e")),
       "a41f859c6608cc993b81cacb020cef05044b2181a2fd337dfd7b1c6396682f29"
       "b4393168e3c9e6bcfe6bc5b7a06d96bae424cc102c91745c24ad673dc7618f81", "Salsa20/8 core")
    s1 = ("77d6576238657b203b19ca42c18a0497f16b4844e3074ae8dfdffa3fede21442"
          "fcd0069ded0948f8326a753a0fc81f17e8d3e0fb2e0d3628cf35e20c38d18906")
    eq(scrypt(b"", b"", 64, 16, 1, 1), s1, "scrypt RFC 7914 #1")
    assert scrypt(b"", b"", 16, 16, 1, 1, 4) == [_h(s1)[i:i + 16] for i in range(0, 64, 16)]
    for (N, r, p, n) in ((2, 1, 1, 16), (8, 2, 2, 33), (32, 3, 1, 70), (4, 8, 3, 64)):
        eq(scrypt(b"pleaseletmein", b"SodiumChloride", n, N, r, p),
           hashlib.scrypt(b"pleaseletmein", salt=b"SodiumChloride", n=N, r=r, p=p, dklen=n),
           "scrypt vs hashlib N=%d r=%d p=%d" % (N, r, p))

    # --- SP 800-108 counter mode (vectors generated with Botan 2.19.1) ------
    kin = bytes(range(16))

    def prf_for(name):
        return lambda k, d: _hmac.new(k, d, name).digest()
    lab = _h("4142434445464748494C4D4E4F505152")
    eq(sp800_108_counter(prf_for("sha256"), 32, kin, 1), "83", "SP800-108 #0")
    eq(sp800_108_counter(prf_for("sha256"), 32, kin, 32, b"", b"A"),
       "4971D93C0C2F5538104715F7A1499A92D21C668A0DE3525F9A1CE58362B96A7F", "SP800-108 #44")
    eq(sp800_108_counter(prf_for("sha256"), 32, kin, 14, b"A", b"A"),
       "AB420EBF9CDED50275C450A274A6", "SP800-108 #143")
    k415 = ("464C90391296440E48E38124FDD696FFBF4CEB5812785FC88531ED9E5F365B33"
            "BD498E3F0FB33AE09756C65C01B4EA77725538B6128654B4F02684D2CC07768D"
            "FEC5B373277C559FA22D8F5287C311B6D4BC30C62F0519C5A67956E75B580FAE"
            "01B2AE9D3072B5ABFCF86689E8B8D25EDD9A6AC7A46B8D029BF606A01742B1D451")
    eq(sp800_108_counter(prf_for("sha256"), 32, kin, 129, lab, lab), k415, "SP800-108 #415")
    eq(sp800_108_counter(prf_for("sha384"), 48, kin, 14, b"A", b"A"),
       "807B8A753C3DB964EC83EA562D43", "SP800-108 SHA384 #559")
    eq(sp800_108_counter(prf_for("sha512"), 64, kin, 129, lab, lab),
       "C5A99172B9B6770813F22248EF14A00E8C63931C7EAF753264B212F240022826"
       "36379F4675A21707B179B8BF046DD16A57F647BBDADCEF6064D004386AE6FB58"
       "71D9C557F5D7247927E72ED71AA49AB43A0D8585DB6194861E545C66F0D9292B"
       "EC259CD0BBE84814844544B3A79A4DBEDF8A16EB6DE99F55020C29A9D3B8B636AC", "SP800-108 SHA512 #1247")
    parts = sp800_108_counter(prf_for("sha256"), 32, kin, 43, lab, lab, 3)
    assert b"".join(parts) == _h(k415) and [len(x) for x in parts] == [43] * 3, "SP800-108 multi"

    # --- Blowfish tables and bcrypt ------------------------------------------
    assert _BF_P0[:4] == [0x243F6A88, 0x85A308D3, 0x13198A2E, 0x03707344], "Blowfish P"
    assert _BF_S0[0][0] == 0xD1310BA6 and _BF_S0[3][255] == 0x3AC372E6, "Blowfish S"
    # Blowfish ECB known answers (Schneier's vectors.txt): key, plaintext -> ciphertext
    for k, pt, ct in (("0000000000000000", "0000000000000000", "4EF997456198DD78"),
                      ("FFFFFFFFFFFFFFFF", "FFFFFFFFFFFFFFFF", "51866FD5B85ECB8A"),
                      ("0123456789ABCDEF", "1111111111111111", "61F9C3802281B096")):
        P, S = blowfish_initial_state()
        _expand_key(P, S, (0, 0, 0, 0), _h(k))
        L, R = struct.unpack(">2I", _h(pt))
        eq(struct.pack(">2I", *_bf_encipher(P, S[0], S[1], S[2], S[3], L, R)), ct, "Blowfish " + k)
    eq(bcrypt_b64encode(bcrypt_b64decode(b"zVHmKQtGGQob.b/Nc7l9NO")), b"zVHmKQtGGQob.b/Nc7l9NO", "bcrypt b64")
    tvs = [
        (b"", b"zVHmKQtGGQob.b/Nc7l9NO", b"$2a$04$zVHmKQtGGQob.b/Nc7l9NO8UlrYcW05FiuCj/SxsFO/ZtiN9.mNzy"),
        (b"5.rApO%5jA", b"kVNDrnYKvbNr5AIcxNzeIu", b"$2a$05$kVNDrnYKvbNr5AIcxNzeIuRcyIF5cZk6UrwHGxENbxP5dVv.WQM/G"),
        (b"g*3Q45=\"8NNgpT&mbMJ$Omfr.#ZeW?FP=CE$#roHd?97uL0F-]`?u73c\"\\[.\"*)qU34@VG",
         b"T2XJ5MOWvHQZRijl8LIKkO", b"$2a$04$T2XJ5MOWvHQZRijl8LIKkOQKIyX75KBfuLsuRYOJz5OjwBNF2lM8a"),
    ]
    for pw, salt64, want in tvs[:2]:
        cost = int(want[4:6])
        eq(bcrypt(pw, cost, bcrypt_b64decode(salt64)), want, "bcrypt %r" % pw)
    # (the third vector, a 70-byte password, goes through bcrypt_matches)
    assert bcrypt_matches(tvs[2][0], tvs[2][2])
    assert not bcrypt_matches(tvs[2][0][:-1], tvs[2][2])
    assert not bcrypt_matches(tvs[0][0], b"x" + tvs[0][2][1:])
    assert not bcrypt_matches(tvs[0][0], b"$2a$03$" + tvs[0][2][7:])
    assert not bcrypt_matches(b"a\x00", tvs[0][2]) and not bcrypt_matches(b"a" * 73, tvs[0][2])
    try:
        with warnings.catch_warnings():
            warnings.simplefilter("ignore")
            import crypt as _crypt
    except ImportError:
        _crypt = None
    if _crypt is not None:
        salt = bytes(range(100, 116))
        # 71 (NUL terminator just fits) and 72 (no terminator) bytes
        for pw in ("\u00e9" * 35 + "a", "\u4e2d" * 24):
            setting = "$2a$04$" + bcrypt_b64encode(salt).decode()
            want = _crypt.crypt(pw, setting)
            if want is None or not want.startswith("$2a$04$"):
                break       # libcrypt without bcrypt support
            eq(bcrypt(pw.encode("utf-8"), 4, salt), want.encode(), "bcrypt vs crypt(3) %r" % pw)
    return True


if __name__ == "__main__":
    import time
    t0 = time.time()
    self_test()
    print("kdf.self_test OK in %.2fs" % (time.time() - t0))
