"""Development-time cross-check: reference model (ref.hashes, ref.kdf) versus
the PyCryptodome library, on large input grids.

This is the ONLY file in ref/ that imports ``Crypto``.  Run with

    PYTHONPATH=/verif /venv/bin/python -m ref.devcheck_hashes [--quick]

It prints the number of cases per algorithm and every mismatch, and exits
with status 1 when there is any mismatch or unexpected exception.
"""

import os
import random
import re
import sys
import time
import warnings
from collections import OrderedDict

from ref import hashes as H
from ref import kdf as K

import Crypto
from Crypto.Hash import (MD2, MD4, MD5, RIPEMD160, SHA1, SHA224, SHA256, SHA384,
                         SHA512, SHA3_224, SHA3_256, SHA3_384, SHA3_512,
                         SHAKE128, SHAKE256, cSHAKE128, cSHAKE256, KMAC128,
                         KMAC256, TupleHash128, TupleHash256, TurboSHAKE128,
                         TurboSHAKE256, KangarooTwelve, BLAKE2b, BLAKE2s, HMAC,
                         CMAC, keccak)
from Crypto.Cipher import AES
from Crypto.Protocol import KDF

QUICK = "--quick" in sys.argv
rng = random.Random(20260925)

cases = OrderedDict()
mismatches = []


def rb(n):
    return rng.randbytes(n)


def check(alg, got_lib, want_model, desc):
    cases[alg] = cases.get(alg, 0) + 1
    if isinstance(got_lib, (tuple, list)):
        got_lib = list(got_lib)
    if isinstance(want_model, (tuple, list)):
        want_model = list(want_model)
    if got_lib != want_model:
        mismatches.append((alg, desc, got_lib, want_model))
        if len(mismatches) <= 40:
            print("MISMATCH %s %s\n   lib  =%r\n   model=%r" % (alg, desc, got_lib, want_model))


def check_call(alg, lib_thunk, model_thunk, desc):
    """Compare results; an exception on exactly one side is a mismatch."""
    try:
        a = lib_thunk()
    except Exception as e:          # noqa
        a = ("EXC", type(e).__name__)
    try:
        b = model_thunk()
    except Exception as e:          # noqa
        b = ("EXC", type(e).__name__)
    if isinstance(a, tuple) and a and a[0] == "EXC" and isinstance(b, tuple) and b and b[0] == "EXC":
        a = b = ("EXC",)
    check(alg, a, b, desc)


def chunked_update(obj, data):
    """Feed data in random-size pieces (exercises the library's buffering)."""
    i = 0
    n = len(data)
    while i < n:
        step = rng.choice((1, 2, 7, 63, 64, 65, 135, 136, 137, 167, 168, 169, 1000, 8191, 8192, 8193))
        obj.update(data[i:i + step])
        i += step
    return obj


# name -> library module-or-object usable as "hashmod"
LIB_HASH = OrderedDict([
    ("md2", MD2), ("md4", MD4), ("md5", MD5), ("ripemd160", RIPEMD160),
    ("sha1", SHA1), ("sha224", SHA224), ("sha256", SHA256), ("sha384", SHA384),
    ("sha512", SHA512),
    ("sha512_224", SHA512.new(truncate="224")),
    ("sha512_256", SHA512.new(truncate="256")),
    ("sha3_224", SHA3_224), ("sha3_256", SHA3_256), ("sha3_384", SHA3_384),
    ("sha3_512", SHA3_512),
])

BIG = (8191, 8192, 8193, 16385, 70000)


# ---------------------------------------------------------------------------
def run_plain_hashes():
    lengths = list(range(0, 301)) + [1000, 4095, 4096, 4097]
    for name, mod in LIB_HASH.items():
        f, bs, ds = H.HASHES[name]
        assert mod.new().digest_size == ds, name
        assert mod.new().block_size == bs, (name, mod.new().block_size, bs)
        for n in lengths:
            m = rb(n)
            check(name, mod.new(m).digest(), f(m), "len=%d" % n)
        for n in (300, 1000, 8193):
            m = rb(n)
            check(name + "/chunked", chunked_update(mod.new(), m).digest(), f(m), "len=%d" % n)
    # the model's own implementations that are shadowed by hashlib in HASHES
    for n in lengths:
        m = rb(n)
        check("ripemd160(own)", RIPEMD160.new(m).digest(), H.ripemd160(m), "len=%d" % n)
        for bits, mod in ((224, SHA3_224), (256, SHA3_256), (384, SHA3_384), (512, SHA3_512)):
            check("sha3_%d(own)" % bits, mod.new(m).digest(), H.sha3(bits, m), "len=%d" % n)
            check("keccak_%d" % bits, keccak.new(data=m, digest_bits=bits).digest(),
                  H.keccak(bits, m), "len=%d" % n)
    for n in (16385, 70000):
        m = rb(n)
        check("md4", MD4.new(m).digest(), H.md4(m), "len=%d" % n)
        check("ripemd160(own)", RIPEMD160.new(m).digest(), H.ripemd160(m), "len=%d" % n)
        check("md2", MD2.new(m).digest(), H.md2(m), "len=%d" % n)
        check("sha3_256(own)", SHA3_256.new(m).digest(), H.sha3(256, m), "len=%d" % n)
        check("keccak_512", keccak.new(data=m, digest_bits=512).digest(), H.keccak(512, m), "len=%d" % n)


def run_blake2():
    for n in list(range(0, 301, 3)) + [1000]:
        m = rb(n)
        for ds in (1, 16, 20, 32, 48, 64):
            for kl in (0, 1, 32, 64):
                key = rb(kl)
                kw = dict(data=m, digest_bytes=ds)
                if kl:
                    kw["key"] = key
                check("blake2b", BLAKE2b.new(**kw).digest(), H.blake2b(m, ds, key), "n=%d ds=%d kl=%d" % (n, ds, kl))
        for ds in (1, 16, 20, 32):
            for kl in (0, 1, 16, 32):
                key = rb(kl)
                kw = dict(data=m, digest_bytes=ds)
                if kl:
                    kw["key"] = key
                check("blake2s", BLAKE2s.new(**kw).digest(), H.blake2s(m, ds, key), "n=%d ds=%d kl=%d" % (n, ds, kl))


def run_xofs():
    lengths = list(range(0, 301)) + list(BIG)
    for bits, shk, tsk, rate in ((128, SHAKE128, TurboSHAKE128, 168), (256, SHAKE256, TurboSHAKE256, 136)):
        outs = (1, 32, rate - 1, rate, rate + 1, 2 * rate, 2 * rate + 1, 500)
        for n in lengths:
            m = rb(n)
            ol = outs[n % len(outs)]
            check("shake%d" % bits, shk.new(m).read(ol), H.shake(bits, m, ol), "n=%d out=%d" % (n, ol))
            check("turboshake%d" % bits, tsk.new(data=m).read(ol), H.turboshake(bits, m, ol), "n=%d out=%d" % (n, ol))
            d = rng.choice((0x01, 0x02, 0x06, 0x07, 0x0B, 0x1F, 0x30, 0x7E, 0x7F))
            check("turboshake%d/domain" % bits, tsk.new(data=m, domain=d).read(ol),
                  H.turboshake(bits, m, ol, d), "n=%d out=%d D=%#x" % (n, ol, d))
        # every output length around the rate, split reads
        for n in (0, 1, rate - 1, rate, rate + 1, 300):
            m = rb(n)
            for ol in list(range(0, 40)) + list(range(rate - 3, rate + 4)) + list(range(2 * rate - 2, 2 * rate + 3)):
                check("shake%d/outlen" % bits, shk.new(m).read(ol), H.shake(bits, m, ol), "n=%d out=%d" % (n, ol))
                check("turboshake%d/outlen" % bits, tsk.new(data=m).read(ol), H.turboshake(bits, m, ol), "n=%d out=%d" % (n, ol))
            x = shk.new(m)
            got = x.read(5) + x.read(rate) + x.read(0) + x.read(rate + 7)
            check("shake%d/splitread" % bits, got, H.shake(bits, m, 2 * rate + 12), "n=%d" % n)
            x = tsk.new(data=m)
            got = x.read(5) + x.read(rate) + x.read(0) + x.read(rate + 7)
            check("turboshake%d/splitread" % bits, got, H.turboshake(bits, m, 2 * rate + 12), "n=%d" % n)
        for d in range(1, 0x80):
            m = rb(d)
            check("turboshake%d/domain" % bits, tsk.new(data=m, domain=d).read(40),
                  H.turboshake(bits, m, 40, d), "all domains D=%#x" % d)
        for n in BIG:
            m = rb(n)
            check("shake%d/chunked" % bits, chunked_update(shk.new(), m).read(64), H.shake(bits, m, 64), "n=%d" % n)
            check("turboshake%d/chunked" % bits, chunked_update(tsk.new(), m).read(64), H.turboshake(bits, m, 64), "n=%d" % n)


def run_k12():
    lengths = list(range(0, 301)) + list(BIG) + [8192 * 2 - 1, 8192 * 2, 8192 * 3 + 5, 8192 * 9]
    for n in lengths:
        m = rb(n)
        ol = (1, 32, 64, 167, 168, 169, 400)[n % 7]
        check("k12", KangarooTwelve.new(data=m).read(ol), H.kangarootwelve(m, ol), "n=%d out=%d" % (n, ol))
    custs = (0, 1, 255, 256, 300, 8189, 8190, 8191, 8192, 8193, 20000)
    for cl in custs:
        c = rb(cl)
        for n in (0, 1, 2, 3, 100, 7800, 8190, 8191, 8192, 8193, 16384, 16385, 30000):
            if n + cl < 7000 and n > 3:
                continue
            m = rb(n)
            if n == 0 and cl + len(H.length_encode(cl)) > 8192:
                # analysed library deviation, see run_known_deviations(); the
                # library is right as soon as update() is called at least once
                check("k12/custom", KangarooTwelve.new(custom=c).update(b"").read(48),
                      H.kangarootwelve(m, 48, c), "n=0 (explicit update(b'')) custom=%d" % cl)
                continue
            check("k12/custom", KangarooTwelve.new(data=m, custom=c).read(48),
                  H.kangarootwelve(m, 48, c), "n=%d custom=%d" % (n, cl))
            check("k12/custom+chunked", chunked_update(KangarooTwelve.new(custom=c), m).read(48),
                  H.kangarootwelve(m, 48, c), "n=%d custom=%d" % (n, cl))
    # all (message, custom) splits around the 8192-byte leaf boundary
    for total in range(8186, 8197):
        for cl in (0, 1, 5, 200, 300):
            for _once in (0,):
                n = total - cl
                m, c = rb(n), rb(cl)
                check("k12/boundary", KangarooTwelve.new(data=m, custom=c).read(32),
                      H.kangarootwelve(m, 32, c), "n=%d custom=%d" % (n, cl))
                x = KangarooTwelve.new(custom=c)
                cut = rng.randrange(0, n + 1)
                x.update(m[:cut]).update(b"").update(m[cut:])
                check("k12/boundary", x.read(7) + x.read(25), H.kangarootwelve(m, 32, c),
                      "n=%d custom=%d split at %d" % (n, cl, cut))
    for total in (16383, 16384, 16385, 24576, 24577):
        for cl in (0, 3, 300):
            n = total - cl - len(H.length_encode(cl))
            m, c = rb(n), rb(cl)
            check("k12/boundary", chunked_update(KangarooTwelve.new(custom=c), m).read(32),
                  H.kangarootwelve(m, 32, c), "n=%d custom=%d (|S|=%d)" % (n, cl, total))
    if not QUICK:
        n = 8192 * 257 + 1      # more than 256 leaves: length_encode needs 2 bytes
        m = rb(n)
        check("k12", KangarooTwelve.new(data=m).read(32), H.kangarootwelve(m, 32), "n=%d" % n)


def run_sp800_185():
    custs = (0, 1, 255, 256, 300)
    for bits, cs, km, th, rate in ((128, cSHAKE128, KMAC128, TupleHash128, 168),
                                   (256, cSHAKE256, KMAC256, TupleHash256, 136)):
        outs = (1, 32, rate - 1, rate, rate + 1, 2 * rate + 1)
        for cl in custs:
            c = rb(cl)
            for n in list(range(0, 301, 1 if cl in (0, 1) else 7)) + [8192, 70000]:
                m = rb(n)
                ol = outs[n % len(outs)]
                check("cshake%d" % bits, cs.new(data=m, custom=c).read(ol),
                      H.cshake(bits, m, ol, b"", c), "n=%d custom=%d out=%d" % (n, cl, ol))
            # function-name string (private constructor of the library)
            for fn in (b"", b"K", b"KMAC", b"TupleHash", rb(200)):
                m = rb(77)
                check("cshake%d/function" % bits, cs._new(m, c, fn).read(40),
                      H.cshake(bits, m, 40, fn, c), "fn=%r custom=%d" % (fn[:9], cl))
        # KMAC
        for kl in list(range(bits // 8, 201, 1)):      # library minimum: 16 / 32 bytes
            key = rb(kl)
            cl = custs[kl % len(custs)]
            c = rb(cl)
            n = rng.choice((0, 1, 100, rate - 1, rate, rate + 1, 300))
            m = rb(n)
            ml = (8, 16, 32, 64, rate - 1, rate, rate + 1, 2 * rate + 1)[kl % 8]
            check("kmac%d" % bits, km.new(key=key, data=m, mac_len=ml, custom=c).digest(),
                  H.kmac(bits, key, m, ml, c), "key=%d n=%d mac=%d custom=%d" % (kl, n, ml, cl))
        for cl in custs:
            c = rb(cl)
            for n in list(range(0, 301, 5)) + [8192, 70000]:
                key = rb(rng.choice((32, 33, 135, 136, 137, 167, 168, 169, 200)))
                m = rb(n)
                ml = rng.choice((8, 32, 64, 200))
                check("kmac%d" % bits, chunked_update(km.new(key=key, mac_len=ml, custom=c), m).digest(),
                      H.kmac(bits, key, m, ml, c), "key=%d n=%d mac=%d custom=%d" % (len(key), n, ml, cl))
        # TupleHash
        for cl in custs:
            c = rb(cl)
            for trial in range(60):
                k = rng.choice((0, 1, 2, 3, 10))
                items = [rb(rng.choice((0, 1, 31, 32, 167, 168, 169, 255, 256, 300, 9000))) for _ in range(k)]
                ol = rng.choice((8, 32, 64, rate - 1, rate, rate + 1, 2 * rate + 1))
                h = th.new(digest_bytes=ol, custom=c)
                if trial % 2:
                    h.update(*items)
                else:
                    for it in items:
                        h.update(it)
                check("tuplehash%d" % bits, h.digest(), H.tuplehash(bits, items, ol, c),
                      "items=%r out=%d custom=%d" % ([len(i) for i in items], ol, cl))


def run_hmac():
    for name, mod in LIB_HASH.items():
        f, bs, ds = H.HASHES[name]
        for kl in sorted(set((0, 1, bs - 1, bs, bs + 1, 200, ds, 2 * bs))):
            key = rb(kl)
            for n in (0, 1, bs - 1, bs, bs + 1, 300, 1000):
                m = rb(n)
                check("hmac-" + name, HMAC.new(key, m, digestmod=mod).digest(),
                      H.hmac_generic(f, bs, key, m), "key=%d n=%d" % (kl, n))
    # HMAC over the model's own SHA-3 / RIPEMD-160
    for bits, mod in ((224, SHA3_224), (256, SHA3_256), (384, SHA3_384), (512, SHA3_512)):
        bs = 200 - bits // 4
        for kl in (0, 1, bs - 1, bs, bs + 1, 200):
            key, m = rb(kl), rb(rng.randrange(0, 300))
            check("hmac-sha3_%d(own)" % bits, HMAC.new(key, m, digestmod=mod).digest(),
                  H.hmac_generic(lambda x, b=bits: H.sha3(b, x), bs, key, m), "key=%d" % kl)
    for kl in (0, 1, 63, 64, 65, 200):
        key, m = rb(kl), rb(rng.randrange(0, 300))
        check("hmac-ripemd160(own)", HMAC.new(key, m, digestmod=RIPEMD160).digest(),
              H.hmac_generic(H.ripemd160, 64, key, m), "key=%d" % kl)


# ---------------------------------------------------------------------------
def run_pbkdf():
    for name in ("md2", "md5", "sha1"):
        mod = LIB_HASH[name]
        hlen = H.HASHES[name][2]
        for dk in range(1, hlen + 1):
            for count in (1, 2, 3, 100, 1000):
                pw, salt = rb(rng.randrange(0, 40)), rb(8)
                check("pbkdf1-" + name, KDF.PBKDF1(pw, salt, dk, count, mod),
                      K.pbkdf1(pw, salt, dk, count, name), "dk=%d c=%d" % (dk, count))
    for name, mod in LIB_HASH.items():
        f, bs, hlen = H.HASHES[name]
        for dk in range(1, 3 * hlen + 2):
            for count in (1, 2, 3, 100):
                if count == 100 and dk not in (1, hlen - 1, hlen, hlen + 1, 2 * hlen, 3 * hlen + 1):
                    continue
                pw = rb(rng.choice((0, 1, 8, bs - 1, bs, bs + 1, 200)))
                salt = rb(rng.choice((0, 1, 8, 16, 100)))
                check("pbkdf2-" + name, KDF.PBKDF2(pw, salt, dk, count, hmac_hash_module=mod),
                      K.pbkdf2(pw, salt, dk, count, name), "pw=%d salt=%d dk=%d c=%d" % (len(pw), len(salt), dk, count))
    # explicit prf path of the library vs pbkdf2_prf of the model
    for trial in range(60):
        pw, salt = rb(rng.randrange(16, 40)), rb(rng.randrange(0, 30))
        dk, count = rng.randrange(1, 100), rng.choice((1, 2, 5))
        prf = lambda p, s: HMAC.new(p, s, SHA256).digest()      # noqa
        check("pbkdf2-prf", KDF.PBKDF2(pw, salt, dk, count, prf=prf),
              K.pbkdf2_prf(lambda p, s: H.hmac("sha256", p, s), 32, pw, salt, dk, count), "dk=%d c=%d" % (dk, count))
        kprf = lambda p, s: KMAC128.new(key=p, data=s, mac_len=24).digest()      # noqa
        check("pbkdf2-prf", KDF.PBKDF2(pw, salt, dk, count, prf=kprf),
              K.pbkdf2_prf(lambda p, s: H.kmac(128, p, s, 24), 24, pw, salt, dk, count), "kmac dk=%d c=%d" % (dk, count))


def run_hkdf():
    for name, mod in LIB_HASH.items():
        f, bs, hlen = H.HASHES[name]
        for key_len in (1, 2, hlen - 1, hlen, hlen + 1, 2 * hlen + 3, 100):
            for num_keys in (1, 2, 3, 7):
                for salt in (None, b"", rb(1), rb(hlen), rb(bs + 1)):
                    for ctx in (None, b"", rb(10), rb(300)):
                        master = rb(rng.choice((0, 1, 16, 32, 200)))
                        check_call("hkdf-" + name,
                                   lambda: KDF.HKDF(master, key_len, salt, mod, num_keys, ctx),
                                   lambda: K.hkdf(master, key_len, salt, name, num_keys, ctx),
                                   "key_len=%d num=%d salt=%r ctx=%r" % (key_len, num_keys,
                                                                        None if salt is None else len(salt),
                                                                        None if ctx is None else len(ctx)))
        # the 255*HashLen limit
        for key_len, num_keys in ((255 * hlen, 1), (255 * hlen + 1, 1), (hlen, 255), (hlen, 256),
                                  (255, hlen), (255, hlen + 1), (17, (255 * hlen) // 17), (17, (255 * hlen) // 17 + 1)):
            master = rb(32)
            check_call("hkdf-%s/limit" % name,
                       lambda: KDF.HKDF(master, key_len, b"s", mod, num_keys, b"c"),
                       lambda: K.hkdf(master, key_len, b"s", name, num_keys, b"c"),
                       "key_len=%d num=%d" % (key_len, num_keys))


def run_scrypt():
    Ns = (2, 4, 8, 16, 32, 64, 128, 256)
    for N in Ns:
        for r in range(1, 9):
            for p in (1, 2, 3):
                if QUICK and (N > 32 or r > 4):
                    continue
                pw, salt = rb(rng.randrange(0, 40)), rb(rng.randrange(0, 40))
                key_len = rng.choice((1, 16, 31, 32, 33, 64, 65, 100))
                num = rng.choice((1, 1, 2, 3))
                check("scrypt", KDF.scrypt(pw, salt, key_len, N, r, p, num),
                      K.scrypt(pw, salt, key_len, N, r, p, num),
                      "N=%d r=%d p=%d key_len=%d num=%d" % (N, r, p, key_len, num))
    # parameter validation (cases where RFC 7914 and the library agree)
    for (N, r, p) in ((0, 1, 1), (3, 1, 1), (6, 1, 1), (2 ** 32, 1, 1), (4, 1, 2 ** 30), (4, 2 ** 25, 2 ** 5 + 1)):
        check_call("scrypt/params", lambda: KDF.scrypt(b"p", b"s", 16, N, r, p),
                   lambda: K.scrypt(b"p", b"s", 16, N, r, p), "N=%d r=%d p=%d" % (N, r, p))


def run_bcrypt():
    alphabet = bytes(range(1, 256))
    for cost in (4, 5):
        for plen in (0, 1, 2, 8, 55, 56, 70, 71, 72):
            for trial in range(2 if QUICK else 3):
                pw = bytes(rng.choice(alphabet) for _ in range(plen))
                salt = rb(16)
                lib = KDF.bcrypt(pw, cost, salt)
                check("bcrypt", lib, K.bcrypt(pw, cost, salt), "cost=%d plen=%d" % (cost, plen))

                def lib_check(p, h):
                    try:
                        KDF.bcrypt_check(p, h)
                        return True
                    except ValueError:
                        return False
                check("bcrypt_check", lib_check(pw, lib), K.bcrypt_matches(pw, lib), "good cost=%d plen=%d" % (cost, plen))
                if trial == 0:
                    bad = bytearray(lib)
                    pos = rng.randrange(7, 60)
                    bad[pos] = ord("A") if bad[pos] != ord("A") else ord("B")
                    bad = bytes(bad)
                    check("bcrypt_check", lib_check(pw, bad), K.bcrypt_matches(pw, bad), "tampered pos=%d" % pos)
    # special shapes
    ref = K.bcrypt(b"pwd", 4, bytes(range(16)))
    variants = [ref[:-1], ref + b"A", b"$2b$" + ref[4:], b"$2a$03$" + ref[7:], b"$2a$32$" + ref[7:],
                b"$2a$4$$" + ref[7:], ref[:10] + b"!" + ref[11:], ref[:6] + b"x" + ref[7:],
                ref[:28] + bytes([ref[28] + 1]) + ref[29:],     # non-canonical last salt char
                ref[:59] + bytes([ref[59] + 1])]                # non-canonical last hash char (maybe)
    for v in variants:
        def lib_check2():
            try:
                KDF.bcrypt_check(b"pwd", v)
                return True
            except ValueError:
                return False
        check("bcrypt_check/format", lib_check2(), K.bcrypt_matches(b"pwd", v), "hash=%r" % v)
    for pw in (b"a\x00b", b"x" * 73, b"\x00"):
        check_call("bcrypt/badpw", lambda: KDF.bcrypt(pw, 4, bytes(16)), lambda: K.bcrypt(pw, 4, bytes(16)), "pw=%r" % pw[:5])
    for cost in (3, 32):
        check_call("bcrypt/badcost", lambda: KDF.bcrypt(b"p", cost, bytes(16)), lambda: K.bcrypt(b"p", cost, bytes(16)), "cost=%d" % cost)
    try:
        with warnings.catch_warnings():
            warnings.simplefilter("ignore")
            import crypt
        for plen in (0, 1, 71, 72):
            pw = "".join(rng.choice("abcXYZ019 !~") for _ in range(plen))
            salt = rb(16)
            want = crypt.crypt(pw, "$2a$05$" + K.bcrypt_b64encode(salt).decode())
            check("bcrypt/crypt(3)", want.encode(), K.bcrypt(pw.encode(), 5, salt), "plen=%d (model vs libcrypt)" % plen)
            check("bcrypt/crypt(3)", want.encode(), KDF.bcrypt(pw.encode(), 5, salt), "plen=%d (library vs libcrypt)" % plen)
    except ImportError:
        pass


def run_sp800_108():
    def lib_hmac(k, d):
        return HMAC.new(k, d, SHA256).digest()

    def lib_cmac(k, d):
        return CMAC.new(k, d, AES).digest()

    def model_hmac(k, d):
        return H.hmac("sha256", k, d)

    for prf_name, lprf, mprf, plen, klens in (("hmac-sha256", lib_hmac, model_hmac, 32, (0, 1, 16, 32, 64, 65, 200)),
                                              ("cmac-aes", lib_cmac, lib_cmac, 16, (16, 24, 32))):
        for key_len in (1, 2, plen - 1, plen, plen + 1, 2 * plen, 2 * plen + 1, 100):
            for num in (None, 1, 2, 3, 10):
                for ll in (0, 1, 16, 300):
                    for cl in (0, 1, 16, 300):
                        master = rb(rng.choice(klens))
                        label = bytes(rng.randrange(1, 256) for _ in range(ll))
                        ctx = bytes(rng.randrange(1, 256) for _ in range(cl))
                        check("sp800_108-" + prf_name,
                              KDF.SP800_108_Counter(master, key_len, lprf, num, label, ctx),
                              K.sp800_108_counter(mprf, plen, master, key_len, label, ctx, 1 if num is None else num),
                              "key_len=%d num=%r label=%d ctx=%d" % (key_len, num, ll, cl))
    # published vectors (Botan) through both implementations, incl. the CMAC ones
    path = None
    try:
        import pycryptodome_test_vectors
        path = os.path.join(os.path.dirname(pycryptodome_test_vectors.__file__), "Protocol", "KDF_SP800_108_COUNTER.txt")
    except ImportError:
        pass
    if not path or not os.path.exists(path):
        path = "/repo/test_vectors/pycryptodome_test_vectors/Protocol/KDF_SP800_108_COUNTER.txt"
    sec = None
    cur = {}
    for line in open(path):
        line = line.strip()
        if line.startswith("["):
            sec = line.strip("[]")
            continue
        m = re.match(r"(\w+) = ?(.*)", line)
        if not m:
            continue
        cur[m.group(1)] = m.group(2)
        if m.group(1) != "KOUT":
            continue
        kin, label, ctx, kout = (bytes.fromhex(cur[x]) for x in ("KIN", "LABEL", "CONTEXT", "KOUT"))
        cur = {}
        if sec.startswith("HMAC-"):
            hn = sec[5:].replace("-", "").lower()
            mprf = lambda k, d, hn=hn: H.hmac(hn, k, d)        # noqa
            lmod = LIB_HASH[hn]
            lprf = lambda k, d, lmod=lmod: HMAC.new(k, d, lmod).digest()   # noqa
            plen = H.HASHES[hn][2]
        else:
            mprf = lprf = lib_cmac
            plen = 16
        check("sp800_108/KAT-%s(model)" % sec, kout, K.sp800_108_counter(mprf, plen, kin, len(kout), label, ctx), "botan vector")
        check("sp800_108/KAT-%s(library)" % sec, kout, KDF.SP800_108_Counter(kin, len(kout), lprf, 1, label, ctx), "botan vector")


# ---------------------------------------------------------------------------
# Discrepancies between the specifications and the library that were analysed
# by hand.  Each entry re-runs an exact reproducer and checks the explanation.
deviations = []


def deviation(name, present, explained, text):
    status = ("CONFIRMED" if present and explained else
              "PRESENT BUT EXPLANATION FAILED" if present else "not present (fixed?)")
    deviations.append((name, status))
    print("LIBRARY DEVIATION %-28s %s\n    %s" % (name, status, text))
    if present and not explained:
        mismatches.append((name, "unexplained deviation", None, None))


def run_known_deviations():
    # D1 -- KangarooTwelve, RFC 9861 section 3: S = M || C || length_encode(|C|)
    # must be tree-hashed whenever |S| > 8192.  If update() is never called
    # (no data, or data=b""), K12_XOF.read() stays in the SHORT_MSG state and
    # emits TurboSHAKE128(S, 0x07) even when the customization string alone
    # exceeds one chunk.
    for cl in (8190, 8191, 20000):
        c = H.ptn(cl)
        lib = KangarooTwelve.new(custom=c).read(32)
        model = H.kangarootwelve(b"", 32, c)
        single = H.turboshake(128, c + H.length_encode(cl), 32, 0x07)
        lib_upd = KangarooTwelve.new(custom=c).update(b"").read(32)
        deviation("K12 empty msg, |C|=%d" % cl, lib != model, lib == single and lib_upd == model,
                  "KangarooTwelve.new(custom=ptn(%d)).read(32): lib=%s.. spec=%s.. "
                  "(lib == single-node TurboSHAKE128(S,0x07); lib with .update(b'') == spec)"
                  % (cl, lib.hex()[:16], model.hex()[:16]))
    # boundary: |C| = 8189 gives |S| = 8192 exactly -> single node, no deviation
    c = H.ptn(8189)
    check("k12/custom", KangarooTwelve.new(custom=c).read(32), H.kangarootwelve(b"", 32, c), "n=0 custom=8189")

    # D2 -- scrypt, RFC 7914 section 2: "N must be larger than 1" and
    # "less than 2^(128*r/8)".  The library accepts N=1 and (r=1, N=2^16) and
    # returns the natural extension of the algorithm.
    for (N, r) in ((1, 1), (1, 8)) + (() if QUICK else ((65536, 1),)):
        try:
            lib = KDF.scrypt(b"pw", b"salt", 32, N, r, 1)
        except ValueError:
            lib = None
        try:
            K.scrypt(b"pw", b"salt", 32, N, r, 1)
            strict_rejects = False
        except ValueError:
            strict_rejects = True
        deviation("scrypt N=%d r=%d" % (N, r), lib is not None and strict_rejects,
                  lib == K.scrypt(b"pw", b"salt", 32, N, r, 1, strict=False),
                  "KDF.scrypt(b'pw', b'salt', 32, N=%d, r=%d, p=1) is accepted (RFC 7914: invalid N); "
                  "output equals the unrestricted formula" % (N, r))

    # D3 -- PBKDF1/PBKDF2 iteration count: RFC 8018 requires a positive integer.
    try:
        lib0 = KDF.PBKDF1(b"pw", b"saltsalt", 8, 0, SHA1)
    except Exception:       # noqa
        lib0 = None
    deviation("PBKDF1 count=0", lib0 is not None, lib0 == K.pbkdf1(b"pw", b"saltsalt", 8, 1, "sha1"),
              "KDF.PBKDF1(b'pw', b'saltsalt', 8, 0, SHA1) silently returns the count=1 result "
              "(also for negative counts); the model raises ValueError")
    kinds = []
    for mod in (SHA1, SHA3_256):
        try:
            KDF.PBKDF2(b"pw", b"salt", 8, 0, hmac_hash_module=mod)
            kinds.append("returned")
        except Exception as e:      # noqa
            kinds.append(type(e).__name__)
    deviation("PBKDF2 count=0", kinds != ["ValueError", "ValueError"], "returned" not in kinds,
              "KDF.PBKDF2(..., count=0) fails with %s (SHA1, C fast path) / %s (SHA3_256, generic path) "
              "instead of a ValueError; no key is produced" % tuple(kinds))

    # D4 -- SP800_108_Counter docstring: label "must not contain zero bytes", but only the
    # context is checked (SP 800-108 itself does not forbid zero bytes in either).
    prf = lambda k, d: HMAC.new(k, d, SHA256).digest()      # noqa
    try:
        lib = KDF.SP800_108_Counter(b"k" * 16, 20, prf, 1, b"A\x00B", b"ctx")
    except ValueError:
        lib = None
    try:
        KDF.SP800_108_Counter(b"k" * 16, 20, prf, 1, b"AB", b"c\x00x")
        ctx_rejected = False
    except ValueError:
        ctx_rejected = True
    deviation("SP800-108 NUL in label", lib is not None and ctx_rejected,
              lib == K.sp800_108_counter(lambda k, d: H.hmac("sha256", k, d), 32, b"k" * 16, 20, b"A\x00B", b"ctx"),
              "label=b'A\\x00B' accepted although documented as forbidden (context with NUL is rejected); "
              "output equals the plain SP 800-108 formula")

    # D5 -- SP800_108_Counter: L = key_len*num_keys*8 >= 2^32 does not fit [L]_32; the library
    # silently emits an 8-byte length field.  (Needs 0.5 GiB blocks: only run in full mode.)
    if not QUICK:
        seen = []
        big = bytes(2 ** 29)

        def fat_prf(k, d):
            seen.append(d)
            return big
        try:
            KDF.SP800_108_Counter(b"k" * 16, 2 ** 29, fat_prf, 1, b"L", b"C")
            accepted = True
        except ValueError:
            accepted = False
        del big
        try:
            K.sp800_108_counter(lambda k, d: b"", 2 ** 29, b"k" * 16, 2 ** 29, b"L", b"C")
            model_rejects = False
        except ValueError:
            model_rejects = True
        deviation("SP800-108 L >= 2^32", accepted and model_rejects,
                  bool(seen) and seen[0] == bytes.fromhex("00000001" "4c" "00" "43" "0000000100000000"),
                  "key_len=2**29 (L=2**32 bits): PRF input is %s, i.e. a 64-bit [L] field instead of an error"
                  % (seen[0].hex() if seen else None))


# ---------------------------------------------------------------------------
def main():
    print("PyCryptodome %s from %s" % (Crypto.__version__, os.path.dirname(Crypto.__file__)))
    t0 = time.time()
    H.self_test()
    K.self_test()
    print("model self-tests OK (%.2fs)" % (time.time() - t0))
    steps = [run_plain_hashes, run_blake2, run_xofs, run_k12, run_sp800_185, run_hmac,
             run_pbkdf, run_hkdf, run_scrypt, run_bcrypt, run_sp800_108, run_known_deviations]
    for step in steps:
        t = time.time()
        try:
            step()
        except Exception as e:      # noqa
            import traceback
            traceback.print_exc()
            mismatches.append((step.__name__, "EXCEPTION %r" % (e,), None, None))
        print("  %-22s done in %6.1fs" % (step.__name__, time.time() - t))
    print("\n%-34s %8s" % ("algorithm", "cases"))
    for alg, n in cases.items():
        bad = sum(1 for m in mismatches if m[0] == alg)
        print("%-34s %8d%s" % (alg, n, "   MISMATCHES: %d" % bad if bad else ""))
    print("\nanalysed library deviations:")
    for name, status in deviations:
        print("  %-32s %s" % (name, status))
    print("\nTOTAL cases: %d   unexplained mismatches: %d   analysed deviations confirmed: %d   (%.1fs)"
          % (sum(cases.values()), len(mismatches),
             sum(1 for _, st in deviations if st == "CONFIRMED"), time.time() - t0))
    return 1 if mismatches else 0


if __name__ == "__main__":
    sys.exit(main())
